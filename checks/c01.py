"""C01 Agreement.

Model: HotStuff.tla closed system (MC_Global): honest nodes + an adversary holding the Byzantine keys and the network.
TLC checks Agreement (with CertSafe and the per-node invariants) by budgeted exhaustive search for tiny constants and
by random simulation with a focused scheduler for N in {4,5,7}, equal and unequal stakes.

Binding to the code:
 (a) attack scripts: for each safety-critical rule the model has a switch that removes it (Weaken); TLC *finds* a
     schedule ending in two conflicting commits in the weakened model (attacks/*.json, regenerated in the thorough
     tier), re-validates it on every run (runs to the end with the weakness, is blocked without it), and the harness
     replays it on real nodes with real signatures.  On code that has the rule the schedule is refused; on code that
     lost the rule honest nodes really commit conflicting blocks and the Agreement formula fails on real output.
 (b) schedules of the unweakened model (Byzantine equivocation, double votes, stale/withheld certificates, relayed
     proposals with replaced TCs, timeouts) replayed on real nodes, every handler run compared with the model;
 (c) randomised multi-node executions of the real stack; TLC evaluates Agreement over all commit channels."""
import glob, json, os
from .common import *
from .core import multi_runs, nontrivial

GCONST = {"LatePayload": "FALSE", "N": "4", "Stake": "<- S4", "Honest": "{1,2,3}", "MaxRound": "10", "Variants": "{0,1}", "Weaken": "{}", "CommitAlgo": '"fixed"',
          "MaxTimeouts": "100", "MaxByzMsgs": "100", "SchedDepth": "100000"}
INVS = ["Agreement", "DeliveredIsChain", "CertSafe", "VoteOncePerRound", "VoteJustified", "NoVoteAfterTimeout", "CommitNeedsTwoChain",
        "RoundMonotone", "RoundNeedsCertificate", "TimeoutCarriesHighQC", "HonestNoEquivocation", "VoteOnlyLeaderBlocks", "StoredClosedUnderParent"]

SIMS = [
    ("n4-byz0", dict(), 4, [1, 1, 1, 1], [1, 2, 3]),
    ("n4-byz1", dict(Honest="{0,2,3}"), 4, [1, 1, 1, 1], [0, 2, 3]),
    ("n4-crash", dict(Honest="{0,1,2}", Variants="{0}"), 4, [1, 1, 1, 1], [0, 1, 2]),
    # proposals may arrive before their batches (payload waiter and loop-back path); replayed in the rig's payload mode
    ("n4-late", dict(Honest="{0,1,2}", LatePayload="TRUE"), 4, [1, 1, 1, 1], [0, 1, 2]),
    ("n5", dict(N="5", Stake="<- S5", Honest="{0,1,2,4}"), 5, [1] * 5, [0, 1, 2, 4]),
    ("n7", dict(N="7", Stake="<- S7", Honest="{0,1,3,4,6}"), 7, [1] * 7, [0, 1, 3, 4, 6]),
    ("n4-unequal", dict(Stake="<- S4u", Honest="{0,1,3}"), 4, [2, 1, 2, 2], [0, 1, 3]),
    ("n6-unequal", dict(N="6", Stake="<- S6u", Honest="{1,2,3,4,5}"), 6, [3, 2, 2, 1, 1, 1], [1, 2, 3, 4, 5]),
]


def simulate(ctx, name, over, num, depth, sched_depth=None, weaken=None, invs=INVS, seed=None, timeout=900):
    c = dict(GCONST)
    c.update(over)
    if weaken:
        c["Weaken"] = '{"%s"}' % weaken
    constraints = []
    inv = list(invs)
    if sched_depth:
        c["SchedDepth"] = str(sched_depth)
        inv = ["EmitSched"] + inv
        constraints = ["StopAtSchedDepth"]
    cfg = write_cfg(ctx, "gsim-%s.cfg" % name, "GSim", c, invariants=inv, constraints=constraints)
    return model_job(ctx, "closed-system simulation %s%s" % (name, " Weaken=%s" % weaken if weaken else ""), "MC_Global.tla", cfg, False,
                     json.dumps(c), workers=8, simulate=num, depth=depth, timeout=timeout)


def validate_script(ctx, path, script):
    """TLC follows the script: with the weakness it must run to the end and violate Agreement; without it, it must not."""
    res = {}
    for label, weaken in (("weakened", '{"%s"}' % script["weaken"]), ("as_coded", "{}")):
        c = dict(GCONST, N=str(script["n"]), Honest="{%s}" % ",".join(map(str, script["honest"])), MaxRound=str(script.get("maxround", 10)),
                 Weaken=weaken)
        cfg = write_cfg(ctx, "script-%s-%s.cfg" % (script["weaken"], label), "SSpec", c, invariants=["Progress"])
        r = tlc(ctx, "MC_Script.tla", cfg, workers=1, timeout=300, env={"SCRIPT": path}, name="script-%s-%s" % (script["weaken"], label), heap="2g")
        m = re.findall(r'<<"AT", (\d+), "of", (\d+), "agreement", (TRUE|FALSE)>>', r["out"])
        if not m:
            raise ToolError("script validation printed nothing for %s" % path)
        reached, total, agr = int(m[-1][0]), int(m[-1][1]), m[-1][2] == "TRUE"
        res[label] = {"reached": reached, "of": total, "agreement": agr}
        ctx.states += r["distinct"]
        ctx.transitions += r["states"]
    ok = res["weakened"]["reached"] == res["weakened"]["of"] and not res["weakened"]["agreement"] and res["as_coded"]["agreement"]
    ctx.jobs.append({"job": "attack script validation", "weaken": script["weaken"], "steps": len(script["acts"]), **res, "valid_attack": ok})
    ctx.log("attack script %-20s weakened model: %d/%d agreement=%s | model as coded: blocked at %d, agreement=%s" % (
        script["weaken"], res["weakened"]["reached"], res["weakened"]["of"], res["weakened"]["agreement"],
        res["as_coded"]["reached"], res["as_coded"]["agreement"]))
    if not res["as_coded"]["agreement"]:
        ctx.violation("the specification as coded (Weaken={}) violates Agreement along the script %s" % os.path.basename(path),
                      "model:script:" + script["weaken"], {"script": script, "result": res})
    return ok


def replay_schedules(ctx, hs, tag, lines, n, stakes, honest, prop="C01"):
    spath = ctx.path("sched-%s.ndjson" % tag)
    open(spath, "w").write("\n".join(lines) + "\n")
    tpath = ctx.path("trace-sched-%s.ndjson" % tag)
    st = run_harness(ctx, hs, ["attack", "in=" + spath, "out=" + tpath, "n=%d" % n, "honest=" + ",".join(map(str, honest)),
                               "stakes=" + ",".join(map(str, stakes)), "tag=%s-%d" % (prop, os.getpid())], timeout=3000)
    rep = validate_trace(ctx, tpath, "sched-" + tag)
    ctx.evaluations += nontrivial(ctx, tpath)
    ctx.traces += st["scripts"]
    for d in rep["div"][:10]:
        ctx.divergences.append({"trace": "sched-" + tag, "line": d[0], "handler": d[1]})
    if rep["ndiv"]:
        ctx.log("DIVERGENCE: %d handler runs differ from the model in sched-%s (first: %s)" % (rep["ndiv"], tag, rep["div"][:3]))
    return st, rep, tpath


def report_agreement(ctx, rep, tpath, what, src):
    runs = None
    for name, line in rep["viol"]:
        if name != "C01.Agreement":
            continue
        if runs is None:
            runs = split_runs(tpath)
        recs = run_at_boundary(runs, line)
        idx = [k for k, r in enumerate(runs) if r[2] is recs]
        idx = idx[0] if idx else 0
        commits = {}
        for l in recs:
            e = json.loads(l)
            if e.get("t") == "core":
                for o in e["out"]:
                    if o["k"] == "commit":
                        commits.setdefault(e["node"], []).append(o["blk"])
        ctx.violation("Agreement fails on the commit channels of real nodes (%s, run %d): committed block ids per node %s" % (what, idx, commits),
                      "C01.Agreement:" + what, {"monitor": name, "source": src(idx), "commits_per_node": commits,
                                                 "run_records": [json.loads(l) for l in recs][:4000]})


def run(ctx):
    q = ctx.quick()
    ctx.rule = ("cases are handler invocations of real nodes in multi-node executions: (a) TLC-found attack schedules, (b) schedules of the "
                "unweakened closed-system model with a Byzantine authority, (c) randomised runs; non-trivial = the handler had an observable "
                "effect; distinct = distinct (handler, input shape, pre-state scalars, effect kinds)")
    ctx.assumptions = ["ideal signatures in the model; total Byzantine stake <= f", "exhaustive only within tiny budgets; larger constants by simulation",
                       "the adversary uses signatures that travelled on the wire (a leader's own vote becomes public inside the QC it proposes)"]
    hs = build_harness(ctx)
    # ---- 1. the model itself
    c = dict(GCONST, MaxRound="2", Variants="{0}", MaxTimeouts="1", MaxByzMsgs="1" if q else "2")
    cfg = write_cfg(ctx, "gx.cfg", "GSpecX", c, invariants=INVS, constraints=["XBound"])
    r = model_job(ctx, "closed system, budgeted exhaustive (N=4, 1 Byzantine, rounds<=2)", "MC_Global.tla", cfg, True, json.dumps(c), workers=8,
                  timeout=240 if q else 1500)
    if r["violated"]:
        ctx.violation("HotStuff.tla violates %s (exhaustive closed-system model)" % r["violated"], "model", {"tlc_output_tail": r["out"][-5000:]})
    scheds = {}
    for name, over, n, stakes, honest in (SIMS[:4] if q else SIMS):
        r = simulate(ctx, name, over, 40 if q else 1500, 400, sched_depth=(110 if q else 160))
        if r["violated"]:
            ctx.violation("HotStuff.tla violates %s (closed-system simulation %s)" % (r["violated"], name), "model", {"tlc_output_tail": r["out"][-5000:]})
        behs = behaviours_from(r["out"])
        scheds[name] = (behs, n, stakes, honest)
    # ---- 2. attack scripts
    scripts = []
    for path in sorted(glob.glob(os.path.join(VERIF, "attacks", "*.json"))):
        s = json.load(open(path))
        if validate_script(ctx, path, s):
            scripts.append((path, s))
        else:
            ctx.log("attack script %s is not a valid attack for the current specification (skipped)" % os.path.basename(path))
    if not q:
        # fresh attacks found by TLC in this run
        for w in ["quorum", "vote_once", "rule2", "rule2_tc_hqr", "timeout_bump", "commit_consecutive", "qc_after_payload", "stale_qc_ignored"]:
            late = w == "qc_after_payload"
            byz3 = w in ("qc_after_payload", "stale_qc_ignored")     # found with authority 3 (leader of rounds 3, 7) Byzantine
            over = dict(LatePayload="TRUE", Honest="{0,1,2}") if late else (dict(Honest="{0,1,2}") if byz3 else {})
            r = simulate(ctx, "attack-search-" + w, over, 12000 if byz3 else 3000, 200 if byz3 else 160, weaken=w, invs=["AgreementJ"], timeout=600 if byz3 else 400)
            m = re.search(r'<<"ATTACK", "(.*)">>', r["out"])
            if m:
                j = json.loads(m.group(1).replace('\\"', '"'))
                s = {"weaken": w, "n": 4, "stakes": [1, 1, 1, 1], "honest": [0, 1, 2] if byz3 else [1, 2, 3], "maxround": 10, "acts": j["acts"]}
                p = ctx.path("fresh-attack-%s.json" % w)
                json.dump(s, open(p, "w"))
                if validate_script(ctx, p, s):
                    scripts.append((p, s))
    if len(scripts) < 3:
        raise ToolError("fewer than 3 valid attack scripts")
    ctx.samples = [{"attack_on": s["weaken"], "first_steps": s["acts"][:6], "steps": len(s["acts"])} for _, s in scripts[:3]]
    # the rig is configured per committee / set of honest authorities: group the scripts
    groups = {}
    for path, s in scripts:
        groups.setdefault((s["n"], tuple(s.get("stakes", [1] * s["n"])), tuple(s["honest"])), []).append((path, s))
    ctx.extra["attack_replays"] = []
    for gi, ((n_, stakes_, honest_), grp) in enumerate(sorted(groups.items())):
        st, rep, tpath = replay_schedules(ctx, hs, "attacks%d" % gi, [json.dumps({"acts": s["acts"]}) for _, s in grp], n_, list(stakes_), list(honest_))
        ctx.extra["attack_replays"] += [{"weaken": s["weaken"], **run_} for (_, s), run_ in zip(grp, st["runs"])]
        for (_, s), run_ in zip(grp, st["runs"]):
            ctx.log("attack %-20s on real nodes: %d/%d steps executed, %d refused, commit rounds %s" % (
                s["weaken"], run_["executed"], run_["steps"], run_["refused"], run_["commit_rounds"]))
        report_agreement(ctx, rep, tpath, "attack schedule", lambda i, grp=grp, n_=n_, stakes_=stakes_, honest_=honest_: {
            "kind": "attack script", "weaken": grp[i][1]["weaken"] if i < len(grp) else None, "n": n_, "stakes": list(stakes_), "honest": list(honest_),
            "acts": grp[i][1]["acts"] if i < len(grp) else None})
    # ---- 3. schedules of the unweakened model on real nodes
    for name, (behs, n, stakes, honest) in scheds.items():
        behs = behs[: (25 if q else 400)]
        if not behs:
            raise ToolError("no schedules generated for %s" % name)
        st, rep, tpath = replay_schedules(ctx, hs, name, behs, n, stakes, honest)
        ex = sum(r_["executed"] for r_ in st["runs"])
        rf = sum(r_["refused"] for r_ in st["runs"])
        ctx.log("schedules %s: %d replayed, %d steps executed, %d refused" % (name, st["scripts"], ex, rf))
        report_agreement(ctx, rep, tpath, "model schedule " + name, lambda i, n=n, stakes=stakes, honest=honest, behs=behs: {
            "kind": "model schedule", "config": name, "n": n, "stakes": stakes, "honest": honest, "acts": json.loads(behs[i])["acts"] if i < len(behs) else None})
    # ---- 4. randomised executions
    for tag, args, runs in [("crash", ["n=4", "steps=500", "crash=2", "crash_at=30", "p_timer=0.05", "p_drop=0.05", "maxround=30"], 3 if q else 60),
                            ("n7", ["n=7", "steps=900", "crash=1,5", "crash_at=60", "p_timer=0.04", "p_drop=0.04", "maxround=25"], 2 if q else 30),
                            ("stake", ["n=5", "stakes=3,1,1,1,1", "steps=700", "crash=3", "crash_at=50", "p_timer=0.04", "maxround=25"], 2 if q else 30)]:
        tp = ctx.path("trace-multi-%s.ndjson" % tag)
        st = run_harness(ctx, hs, ["multi", "out=" + tp, "runs=%d" % runs, "seed=%d" % ctx.seed] + args)
        rep = validate_trace(ctx, tp, "multi-" + tag)
        ctx.evaluations += nontrivial(ctx, tp)
        ctx.traces += runs
        report_agreement(ctx, rep, tp, "randomised run " + tag, lambda i: {"kind": "multi-node run", "args": args, "seed": ctx.seed, "run": i})
    ctx.exhaustive = False
    return ctx.finish()
