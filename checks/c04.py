"""C04: only correctly signed, quorum-backed messages influence a node.

Verify.tla defines validity of votes, QCs, TCs, timeouts and blocks over ideal signatures and enumerates the mutation
matrix (alter any signed field, transplant a signature across author / round / block / message kind, repeat a signer,
non-member, zero-stake member, below quorum, reweighted signer sets, invalid embedded certificates).  TLC checks the
matrix-level statements and emits the cases; the harness instantiates each with real keys, calls the real verify()
and injects rejected messages into a running real node; TLC validates the recorded verdicts and node reactions."""
import json, os
from .common import *

CONFIGS = [("eq4", 4, "Eq4", [1, 1, 1, 1]), ("uneq4", 4, "Uneq4", [3, 1, 2, 1]), ("zero4", 4, "Zero4", [2, 2, 2, 0]), ("eq7", 7, "Eq7", [1] * 7)]


def cases_from(out):
    cases = []
    for m in re.finditer(r'<<"CASE", "(.*)">>', out):
        cases.append(m.group(1).replace('\\"', '"'))
    return cases


def run(ctx):
    ctx.rule = ("cases are cells of the mutation matrix of Verify.tla (message kind x mutation x signer set x committee), each instantiated "
                "with real ed25519 keys; distinct = distinct abstract cases per committee; non-trivial = every case (each has a verdict "
                "that the real verify() must reproduce); rejected cases are additionally injected into a fresh running node")
    ctx.assumptions = ["the matrix is finite: one concrete value per abstract cell plus a case-dependent flipped bit; byte-level exhaustiveness of "
                       "signature checking is C18's subject", "a rejected message is judged by the node's state snapshot, effects, tasks and frames in that step"]
    hs = build_harness(ctx)
    q = ctx.quick()
    for name, n, stake, stakes in (CONFIGS[:3] if q else CONFIGS):
        cfg = ctx.path("verify-%s.cfg" % name)
        open(cfg, "w").write("CONSTANTS\n NMembers = %d\n Stake <- %s\n" % (n, stake))
        r = model_job(ctx, "Verify.tla matrix " + name, "MC_Verify.tla", cfg, True, "NMembers=%d Stake=%s" % (n, stakes), workers=2, timeout=600)
        if "Assumption" in r["out"] and "is false" in r["out"]:
            ctx.violation("Verify.tla: a matrix-level statement (below quorum / repeated signer / outsider / altered field is rejected) is false",
                          "model", {"tlc_output_tail": r["out"][-3000:]})
        cases = cases_from(r["out"])
        if len(cases) < 100:
            raise ToolError("matrix generation produced too few cases")
        cpath = ctx.path("cases-%s.ndjson" % name)
        open(cpath, "w").write("\n".join(cases) + "\n")
        tpath = ctx.path("verify-trace-%s.ndjson" % name)
        st = run_harness(ctx, hs, ["verify", "in=" + cpath, "out=" + tpath, "stakes=" + ",".join(map(str, stakes)),
                                   "inject=%d" % (60 if q else 100000), "seed=%d" % ctx.seed, "tag=c04-%d" % os.getpid()], timeout=3000)
        ctx.log("verify %s: %s" % (name, st))
        rep = validate_trace(ctx, tpath, "verify-" + name, module="TraceVerify.tla",
                             base_constants={"NMembers": "<- TrN", "Stake": "<- TrStake"})
        ctx.traces += 1
        ctx.evaluations += st["cases"] + st["injected"]
        for c in cases:
            ctx.distinct.add(hash((name, c)))
        if not ctx.samples:
            ctx.samples = [json.loads(c) for c in cases[:2]]
        ctx.extra.setdefault("accepted_cases", 0)
        ctx.extra.setdefault("rejected_cases_injected_into_a_running_node", 0)
        ctx.extra["accepted_cases"] += st["accepted"]
        ctx.extra["rejected_cases_injected_into_a_running_node"] += st["injected"]
        recs = None
        for vname, line in rep["viol"]:
            if recs is None:
                recs = open(tpath).read().splitlines()
            e = json.loads(recs[line - 1])
            if e.get("t") == "replay":
                ctx.violation("%s: the same valid %s of authority %d delivered three times, plus authority %d's, produced a certificate (committee %s)" % (
                    vname, e["what"], e["first"], e["second"], name), "%s:%s" % (vname, e["what"]), {"monitor": vname, "committee_stakes": stakes, "record": e})
                continue
            ctx.violation("%s: case %s/%s (committee %s): real verify() accepted=%s, node changed=%s effects=%s" % (
                vname, e["c"]["kind"], e["c"]["m"], name, e["accepted"], e["node_changed"], e["node_effects"]),
                "%s:%s:%s" % (vname, e["c"]["kind"], e["c"]["m"]), {"monitor": vname, "committee_stakes": stakes, "record": e})
    return ctx.finish()
