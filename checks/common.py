"""Shared machinery of the /verif/check driver: harness build, TLC runs, trace validation, evidence."""
import fcntl, hashlib, json, os, re, shutil, subprocess, sys, time

VERIF = os.path.dirname(os.path.dirname(os.path.abspath(__file__)))
SPEC = os.path.join(VERIF, "spec")
HARNESS = os.path.join(VERIF, "harness")
REPO = "/repo"
KNOWN = os.path.join(VERIF, "known_findings.json")


class ToolError(Exception):
    pass


class Ctx:
    def __init__(self, prop, tier, seed):
        self.prop = prop
        self.tier = tier
        self.seed = seed
        self.t0 = time.time()
        self.work = os.path.join(VERIF, "work", "%s-%d" % (prop, os.getpid()))
        shutil.rmtree(self.work, ignore_errors=True)
        os.makedirs(self.work, exist_ok=True)
        self.level = "model_checking"
        self.states = 0
        self.transitions = 0
        self.traces = 0
        self.evaluations = 0
        self.distinct = set()
        self.samples = []
        self.jobs = []
        self.assumptions = []
        self.violations = []      # (what, replay_path)
        self.known_hits = []
        self.divergences = []
        self.rule = ""
        self.exhaustive = None
        self.extra = {}
        self.trusted = ["TLC 1.8 / SANY", "the rig (network::simnet in-memory transport, per-node paused tokio clocks)",
                        "guarded hooks (cfg hotstuff_verif) and the abstraction in harness/src/rig.rs"]

    def quick(self):
        return self.tier == "quick"

    def path(self, name):
        return os.path.join(self.work, name)

    def log(self, *a):
        print("[%s %6.1fs]" % (self.prop, time.time() - self.t0), *a, flush=True)

    # -- findings ---------------------------------------------------------------------------------------
    def known(self):
        try:
            return json.load(open(KNOWN))
        except Exception:
            return {"findings": []}

    def violation(self, what, key, replay_obj):
        """Report a violation of this property. `key` identifies the failing input/call site for the
        known-findings list."""
        for f in self.known().get("findings", []):
            if f.get("property") == self.prop and f.get("status") == "open" and re.search(f["match"], key):
                if f["id"] not in [k["id"] for k in self.known_hits]:
                    self.known_hits.append(f)
                    print("KNOWN-FINDING: property=%s %s" % (self.prop, f["what"]), flush=True)
                return
        os.makedirs(os.path.join(VERIF, "replays"), exist_ok=True)
        h = hashlib.sha1((what + key + json.dumps(replay_obj, sort_keys=True, default=str)[:20000]).encode()).hexdigest()[:10]
        path = os.path.join(VERIF, "replays", "%s-%s.json" % (self.prop, h))
        replay_obj = dict(replay_obj)
        replay_obj.update({"property": self.prop, "what": what, "key": key, "tier": self.tier, "seed": self.seed})
        if len(self.violations) < 5:
            json.dump(replay_obj, open(path, "w"), indent=1, default=str)
        else:
            path = self.violations[-1][1]
        if len(self.violations) < 5:
            print("VIOLATION property=%s replay=%s" % (self.prop, path), flush=True)
            print("  what: %s" % what, flush=True)
        self.violations.append((what, path))

    # -- evidence ---------------------------------------------------------------------------------------
    def finish(self):
        cov = {
            "states": self.states,
            "transitions": self.transitions,
            "traces_validated_against_impl": self.traces,
            "evaluations": self.evaluations,
            "distinct_nontrivial": len(self.distinct),
            "rule": self.rule,
            "samples": self.samples[:8] if self.samples else ["(none)"],
            "jobs": self.jobs,
            "divergences": self.divergences[:20],
            "known_findings_hit": [k["id"] for k in self.known_hits],
            "trusted_base": self.trusted,
        }
        if self.exhaustive is not None:
            cov["exhaustive"] = self.exhaustive
        cov.update(self.extra)
        ev = {
            "property_id": self.prop,
            "tier": self.tier,
            "seed": self.seed,
            "level": self.level,
            "coverage": cov,
            "assumptions": self.assumptions,
            "wall_s": round(time.time() - self.t0, 2),
            "violations": len(self.violations),
        }
        os.makedirs(os.path.join(VERIF, "evidence"), exist_ok=True)
        json.dump(ev, open(os.path.join(VERIF, "evidence", "%s.json" % self.prop), "w"), indent=1, default=str)
        shutil.rmtree(self.work, ignore_errors=True)
        if self.violations:
            self.log("FAILED: %d violation(s)" % len(self.violations))
            return 1
        self.log("ok: states=%d transitions=%d traces=%d evaluations=%d distinct=%d divergences=%d" % (
            self.states, self.transitions, self.traces, self.evaluations, len(self.distinct), len(self.divergences)))
        return 0


# ---------------------------------------------------------------------------------------------------------
def build_harness(ctx, bench=False):
    """Incremental build of the harness against /repo's current working tree (hooks on)."""
    lock = open(os.path.join(VERIF, "work", ".build.lock"), "w")
    fcntl.flock(lock, fcntl.LOCK_EX)
    try:
        cmd = ["cargo", "build", "--offline"]
        tdir = "target"
        if bench:
            cmd += ["--features", "benchmark", "--target-dir", "target-bench"]
            tdir = "target-bench"
        env = dict(os.environ, CARGO_NET_OFFLINE="true")
        t = time.time()
        p = subprocess.run(cmd, cwd=HARNESS, env=env, stdout=subprocess.PIPE, stderr=subprocess.STDOUT, text=True)
        if p.returncode != 0:
            sys.stdout.write(p.stdout[-6000:])
            raise ToolError("harness build failed (does /repo still compile?)")
        ctx.log("harness built in %.1fs%s" % (time.time() - t, " (benchmark feature)" if bench else ""))
        # copy the binary so that a concurrent rebuild does not swap it under us
        src = os.path.join(HARNESS, tdir, "debug", "hsverif")
        dst = ctx.path("hsverif-bench" if bench else "hsverif")
        shutil.copy2(src, dst)
        return dst
    finally:
        fcntl.flock(lock, fcntl.LOCK_UN)
        lock.close()


def run_harness(ctx, binary, args, timeout=1200, check=True, env=None):
    e = dict(os.environ)
    # C02 is about what reaches the application: its runs use a commit channel of capacity 1 (a slow application), read between handler runs
    if ctx.prop == "C02":
        e["HSVERIF_COMMIT_CAP"] = "1"
    if env:
        e.update(env)
    p = subprocess.run([binary] + args, stdout=subprocess.PIPE, stderr=subprocess.PIPE, text=True, timeout=timeout,
                       cwd=ctx.work, env=e)
    if check and p.returncode not in (0,):
        sys.stdout.write(p.stdout[-3000:] + p.stderr[-3000:])
        raise ToolError("harness %s exited %d" % (args[0], p.returncode))
    last = p.stdout.strip().splitlines()[-1] if p.stdout.strip() else "{}"
    try:
        return json.loads(last)
    except Exception:
        return {"raw": p.stdout[-2000:], "stderr": p.stderr[-2000:]}


TLC_FINAL = re.compile(r"(\d+) states generated, (\d+) distinct states found, (\d+) states left on queue")


def write_cfg(ctx, name, spec, constants, invariants=(), constraints=(), view=None, properties=(), extra=""):
    lines = ["SPECIFICATION %s" % spec, "CONSTANTS"]
    for k, v in constants.items():
        lines.append(" %s %s" % (k, v) if v.startswith("<-") or v.startswith("=") else " %s = %s" % (k, v))
    for c in constraints:
        lines.append("CONSTRAINT %s" % c)
    if invariants:
        lines.append("INVARIANTS " + " ".join(invariants))
    if properties:
        lines.append("PROPERTIES " + " ".join(properties))
    if view:
        lines.append("VIEW %s" % view)
    lines.append("CHECK_DEADLOCK FALSE")
    if extra:
        lines.append(extra)
    path = os.path.join(ctx.work, name)
    open(path, "w").write("\n".join(lines) + "\n")
    return path


def tlc(ctx, module, cfg, workers=8, simulate=None, depth=None, timeout=900, env=None, name=None, heap="6g",
        expect_violation=False):
    """Run TLC. Returns dict(states, distinct, queue, out, violated: [invariant names], error: bool)."""
    # TLC resolves EXTENDS relative to the module's directory: run in a scratch copy of spec/
    sdir = ctx.path("spec")
    if not os.path.isdir(sdir):
        shutil.copytree(SPEC, sdir)
    cfgname = os.path.basename(cfg)
    if os.path.dirname(os.path.abspath(cfg)) != sdir:
        shutil.copy2(cfg, os.path.join(sdir, cfgname))
    meta = ctx.path("meta-%s" % (name or cfgname))
    cmd = ["timeout", str(timeout), "tlc", "-workers", str(workers), "-metadir", meta, "-noGenerateSpecTE",
           "-config", cfgname]
    if simulate is not None:
        # reproducible: the simulation seed is derived from VERIF_SEED and the job name
        sd = (ctx.seed * 1000003 + sum(ord(c) * (i + 1) for i, c in enumerate(name or cfgname))) % (2 ** 31)
        cmd += ["-seed", str(sd), "-simulate", "num=%d" % simulate]
        if depth:
            cmd += ["-depth", str(depth)]
    else:
        cmd += ["-cleanup"]
    cmd += [module]
    e = dict(os.environ)
    jopts = "-Xmx%s -Xss1g" % heap
    if env and env.get("_DFS"):
        jopts += " -Dtlc2.tool.queue.IStateQueue=StateDeque"
    e["JAVA_TOOL_OPTIONS"] = jopts
    if env:
        e.update({k: v for k, v in env.items() if not k.startswith("_")})
    t = time.time()
    outpath = ctx.path("tlc-%s.out" % (name or cfgname))
    with open(outpath, "w") as f:
        p = subprocess.run(cmd, cwd=sdir, env=e, stdout=f, stderr=subprocess.STDOUT)
    out = open(outpath, errors="replace").read()
    shutil.rmtree(meta, ignore_errors=True)
    res = {"out": out, "outpath": outpath, "rc": p.returncode, "wall_s": round(time.time() - t, 1), "states": 0,
           "distinct": 0, "queue": 0, "violated": re.findall(r"Invariant (\w+) is violated", out)}
    res["violated"] += re.findall(r"Action property (\w+) is violated", out)
    # TLC words this in three ways ("Temporal properties were violated", "Temporal property P was violated", "Temporal properties P and Q were violated")
    res["violated"] += [x.strip() for x in re.findall(r"(Temporal propert(?:y|ies)[^\n.]*violated)", out)]
    res["violated"] += ["ASSUME(line %s)" % x for x in re.findall(r"Assumption line (\d+), .* is false", out)]
    m = TLC_FINAL.findall(out)
    if m:
        res["states"], res["distinct"], res["queue"] = map(int, m[-1])
    else:
        m2 = re.findall(r"The number of states generated: (\d+)", out)
        if m2:
            res["states"] = int(m2[-1])
            res["distinct"] = int(m2[-1])
    if p.returncode == 124:
        res["timeout"] = True
    bad = ("Parsing or semantic analysis failed" in out or "TLC threw an unexpected exception" in out
           or "Error: TLC" in out or re.search(r"Error: .*(evaluat|Attempted|not enumerable|was not)", out) is not None)
    res["error"] = bool(bad) and not res["violated"]
    if res["error"]:
        sys.stdout.write(out[-4000:])
        raise ToolError("TLC failed on %s / %s" % (module, cfgname))
    return res


def model_job(ctx, title, module, cfg, exhaustive, constants_note, **kw):
    """A TLC run on the model itself; any invariant violation here is a violation *of the design*."""
    r = tlc(ctx, module, cfg, **kw)
    done = exhaustive and r["queue"] == 0 and not r.get("timeout")
    ctx.states += r["distinct"]
    ctx.transitions += r["states"]
    ctx.jobs.append({"job": title, "module": module, "constants": constants_note, "distinct_states": r["distinct"],
                     "states_generated": r["states"], "exhaustive": bool(done), "simulation": kw.get("simulate") is not None,
                     "timed_out": bool(r.get("timeout")), "wall_s": r["wall_s"], "violated": r["violated"]})
    ctx.log("TLC %s: %d distinct / %d generated, %.0fs%s%s" % (title, r["distinct"], r["states"], r["wall_s"],
            " (complete)" if done else "", " VIOLATED %s" % r["violated"] if r["violated"] else ""))
    return r


def behaviours_from(out):
    """Extract the JSON behaviours printed by an EmitBeh invariant."""
    behs = []
    seen = set()
    for m in re.finditer(r'<<"BEHAVIOUR", "(.*)">>', out):
        s = m.group(1).replace('\\"', '"')
        if s not in seen:
            seen.add(s)
            behs.append(s)
    return behs


def validate_trace(ctx, trace, name, module="TraceHS.tla", constants=None, timeout=900, base_constants=None, invariants=()):
    """code -> spec: TLC checks a recorded trace. Returns the REPORT dict + 'consumed'."""
    consts = {"N": "<- TrN", "Stake": "<- TrStake", "Honest": "<- TrHonest", "MaxRound": "0", "Variants": "{0}",
              "Weaken": "{}", "CommitAlgo": '"fixed"'} if base_constants is None else dict(base_constants)
    if constants:
        consts.update(constants)
    cfg = write_cfg(ctx, "Trace-%s.cfg" % name, "TSpec", consts, invariants=["Report"] + list(invariants), extra="POSTCONDITION Accepted")
    r = tlc(ctx, module, cfg, workers=1, timeout=timeout, env={"TRACE": trace, "_DFS": "1"}, name="trace-" + name, heap="4g")
    out = r["out"]
    if r["violated"]:
        sys.stdout.write(out[-3000:])
        raise ToolError("trace validation %s: specification invariant %s failed along the recorded execution" % (name, r["violated"]))
    m = re.search(r'<<"REPORT", "(.*)">>', out)
    if not m:
        sys.stdout.write(out[-3000:])
        raise ToolError("trace validation produced no report (%s)" % name)
    rep = json.loads(m.group(1).replace('\\"', '"'))
    mc = re.search(r'<<"TRACE", "records", (\d+), "consumed", (\d+)>>', out)
    if "records" not in rep:
        rep["records"] = int(mc.group(1)) if mc else 0
        rep["consumed"] = int(mc.group(2)) if mc else 0
    if rep["records"] != rep["consumed"]:
        sys.stdout.write(out[-3000:])
        raise ToolError("trace not fully consumed (%s): %s of %s" % (name, rep["consumed"], rep["records"]))
    ctx.states += r["distinct"]
    ctx.transitions += r["states"]
    ctx.jobs.append({"job": "trace validation " + name, "module": module, "records": rep["records"], "steps_compared": rep["steps"],
                     "divergences": rep["ndiv"], "monitor_failures": rep["viol"], "wall_s": r["wall_s"]})
    ctx.log("trace %s: %d records, %d steps compared, %d divergences, monitors failed: %s (%.0fs)" % (
        name, rep["records"], rep["steps"], rep["ndiv"], sorted(set(v[0] for v in rep["viol"])), r["wall_s"]))
    return rep


def split_runs(trace):
    """[(first_line_no, last_line_no, [records])] per run (reset .. next reset)."""
    runs = []
    cur = None
    with open(trace) as f:
        for i, line in enumerate(f, 1):
            if line.startswith('{"honest"') or '"t":"reset"' in line[:400] and json.loads(line).get("t") == "reset":
                if cur:
                    runs.append(cur)
                cur = [i, i, [line]]
            elif cur:
                cur[1] = i
                cur[2].append(line)
    if cur:
        runs.append(cur)
    return runs


def run_at_boundary(runs, boundary_line):
    """The run that ends right before record number `boundary_line` (a reset or end record)."""
    for first, last, recs in runs:
        if last + 1 == boundary_line or (first <= boundary_line <= last and '"t":"end"' in recs[-1] and last == boundary_line):
            return recs
    best = None
    for first, last, recs in runs:
        if first < boundary_line:
            best = recs
    return best or []


def repo_tree_id():
    p = subprocess.run("git -C /repo rev-parse HEAD; git -C /repo diff | sha1sum", shell=True, stdout=subprocess.PIPE, text=True)
    return p.stdout.strip().replace("\n", " ")


def generic_replay(ctx, path):
    """./check <ID> --replay <file>: re-run the saved schedule/behaviour on the CURRENT code when the replay file carries one,
    otherwise re-validate the recorded execution; exit 1 with a VIOLATION line if the property's monitors still fail."""
    obj = json.load(open(path))
    prop = ctx.prop
    src = obj.get("source") or {}
    hs = None
    tpath = None
    if src.get("kind") == "local replay" and src.get("behaviour"):
        hs = build_harness(ctx)
        b = ctx.path("replay-beh.ndjson")
        open(b, "w").write(json.dumps(src["behaviour"]) + "\n")
        tpath = ctx.path("replay-trace.ndjson")
        args = ["local", "in=" + b, "out=" + tpath, "n=%d" % src.get("n", 4), "me=%d" % src.get("me", 1)]
        if src.get("stakes"):
            args.append("stakes=" + ",".join(map(str, src["stakes"])))
        run_harness(ctx, hs, args)
    elif src.get("kind") in ("attack script", "model schedule") and src.get("acts"):
        hs = build_harness(ctx)
        b = ctx.path("replay-sched.ndjson")
        open(b, "w").write(json.dumps({"acts": src["acts"]}) + "\n")
        tpath = ctx.path("replay-trace.ndjson")
        n = src.get("n", 4)
        run_harness(ctx, hs, ["attack", "in=" + b, "out=" + tpath, "n=%d" % n, "honest=" + ",".join(map(str, src.get("honest", [1, 2, 3]))),
                              "stakes=" + ",".join(map(str, src.get("stakes", [1] * n)))])
    elif obj.get("rerun"):
        # a component schedule: execute it again on the current code and validate the new trace with the component's trace module
        rr = obj["rerun"]
        hs = build_harness(ctx)
        b = ctx.path("replay-sched.ndjson")
        open(b, "w").write(json.dumps(rr["schedule"]) + "\n")
        tpath = ctx.path("replay-trace.ndjson")
        args = [a.replace("{in}", b).replace("{out}", tpath) for a in rr["harness"]]
        run_harness(ctx, hs, args)
        rep = validate_trace(ctx, tpath, "replay", module=rr["module"], base_constants=rr["constants"], invariants=rr.get("invariants", []))
        bad = sorted(set(v[0] for v in rep["viol"] if v[0].startswith(rr.get("prefix", prop + "."))))
        ctx.log("monitors failing on the replay: %s; divergences: %d" % (bad, rep["ndiv"]))
        if bad:
            print("VIOLATION property=%s replay=%s" % (prop, path))
            return 1
        return 0
    elif obj.get("run_records"):
        tpath = ctx.path("replay-trace.ndjson")
        recs = obj["run_records"]
        if recs and recs[-1].get("t") != "end":
            recs = recs + [{"t": "end"}]
        open(tpath, "w").write("\n".join(json.dumps(r) for r in recs) + "\n")
        ctx.log("no schedule in the replay file: re-validating the recorded execution")
    else:
        print("this replay file carries neither a schedule nor a recorded run; see its 'record' field:")
        print(json.dumps(obj.get("record", obj), indent=1)[:3000])
        return 2
    rep = validate_trace(ctx, tpath, "replay")
    bad = sorted(set(v[0] for v in rep["viol"] if v[0].startswith(prop + ".")))
    ctx.log("monitors failing on the replay: %s (all: %s); divergences: %d" % (bad, sorted(set(v[0] for v in rep["viol"])), rep["ndiv"]))
    if bad:
        print("VIOLATION property=%s replay=%s" % (prop, path))
        return 1
    return 0
