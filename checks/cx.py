"""C18 (signatures, batch verification, key encodings) and C20 (message identity).

TLA+ cannot reason about ed25519, SHA-512 or base64.  What the specification contributes is the ideal functionality as the
oracle (Crypto.tla: a signature verifies iff it is the one made with that key for that digest; a batch verifies iff every
member does) and the layout analysis (Digests.tla: each signed pre-image is injective in the fields C20 names and the
three kinds of pre-image can never coincide, checked by TLC for the scaled layout and for the real widths).  The
quantification over bits, bytes and key values is enumerated/sampled by the harness on the real code and the recorded
results are validated by TLC against the modules.  Level: exploration."""
import json, os
from .common import *


def report(ctx, rep, tpath, prefix):
    recs = None
    for name, line in rep["viol"]:
        if not name.startswith(prefix):
            continue
        if recs is None:
            recs = open(tpath).read().splitlines()
        e = json.loads(recs[line - 1])
        ctx.violation("%s: %s" % (name, json.dumps({k: v for k, v in e.items() if k not in ("t",)})[:300]),
                      "%s:%s" % (name, e.get("what", e.get("kind"))), {"monitor": name, "record": e})


def run_c18(ctx):
    ctx.level = "exploration"
    q = ctx.quick()
    ctx.rule = ("cases: (a) every cell of the Crypto.tla batch matrix (size 0..5 x corrupted position x corruption kind) with fresh honestly "
                "generated keys, for sigbit cells %s; (b) single signatures: all 512 signature bits, all 256 digest bits, all 256 key bits; "
                "(c) encodings: base64 and JSON round trips of public and secret keys, the node's key file and committee file; "
                "distinct = distinct (kind, cell/what, bit)" % ("a seeded sample of bit positions" if q else "all 512 bit positions"))
    ctx.assumptions = ["keys come from the crate's own generator (honestly generated); adversarially crafted (small-order) keys/signatures are outside the property"]
    hs = build_harness(ctx)
    cfg = ctx.path("crypto.cfg")
    open(cfg, "w").write("CONSTANTS\n MaxBatch = 5\n")
    r = model_job(ctx, "Crypto.tla: batch verdict = conjunction of member verdicts over the matrix", "MC_Crypto.tla", cfg, True, "MaxBatch=5", workers=2, timeout=300)
    if "Assumption" in r["out"] and "is false" in r["out"]:
        ctx.violation("Crypto.tla: BatchIffEach is false in the model", "model", {"tlc_output_tail": r["out"][-3000:]})
    cases = [m.group(1).replace('\\"', '"') for m in re.finditer(r'<<"CASE", "(.*)">>', r["out"])]
    if len(cases) < 20:
        raise ToolError("too few crypto cases")
    cpath = ctx.path("crypto-cases.ndjson")
    open(cpath, "w").write("\n".join(cases) + "\n")
    tpath = ctx.path("crypto-trace.ndjson")
    st = run_harness(ctx, hs, ["crypto", "in=" + cpath, "out=" + tpath, "seed=%d" % ctx.seed, "reps=%d" % (6 if q else 40),
                               "allbits=%d" % (0 if q else 1), "nkeys=%d" % (100 if q else 3000), "dir=" + ctx.work], timeout=3000)
    ctx.log("crypto: %s" % st)
    rep = validate_trace(ctx, tpath, "crypto", module="TraceCrypto.tla", base_constants={"MaxBatch": "5"}, timeout=1800)
    ctx.traces += 1
    ctx.evaluations += st["calls"]
    for line in open(tpath):
        e = json.loads(line)
        if e.get("t") == "crypto":
            ctx.distinct.add((e["kind"], json.dumps(e.get("members", e.get("what"))), e.get("bit", 0)))
    ctx.samples = [json.loads(c) for c in cases[:3]] + [{"kind": "single", "what": "sigbit", "bits": "0..511"}]
    report(ctx, rep, tpath, "C18.")
    return ctx.finish()


def run_c20(ctx):
    ctx.level = "exploration"
    q = ctx.quick()
    ctx.rule = ("cases: pairs of real messages differing in exactly one bound field (block author / round / payload element, order, length / parent; "
                "the payload-parent boundary shifted and swapped; vote and QC block / round; timeout round / high-QC round and the two swapped), "
                "cross-kind pairs and transplanted signatures, wire and store round trips; fresh random field values per repetition; "
                "distinct = distinct (kind, what) cells x repetitions")
    ctx.assumptions = ["SHA-512/256 is collision resistant (Digests.tla establishes injectivity and kind separation of the hashed layout)"]
    hs = build_harness(ctx)
    cfg = ctx.path("digests.cfg")
    open(cfg, "w").write("CONSTANTS\n MaxPayload = 2\n")
    r = model_job(ctx, "Digests.tla: layouts injective, kinds disjoint", "Digests.tla", cfg, True, "MaxPayload=2, widths in 8-byte units", workers=2, timeout=600)
    if "Assumption" in r["out"] and "is false" in r["out"]:
        ctx.violation("Digests.tla: the layout is not injective / kinds can coincide", "model", {"tlc_output_tail": r["out"][-3000:]})
    tpath = ctx.path("digest-trace.ndjson")
    st = run_harness(ctx, hs, ["digests", "out=" + tpath, "seed=%d" % ctx.seed, "reps=%d" % (150 if q else 3000)], timeout=3000)
    ctx.log("digests: %s" % st)
    rep = validate_trace(ctx, tpath, "digests", module="TraceDigests.tla", base_constants={"MaxPayload": "1"}, timeout=1800)
    ctx.traces += 1
    ctx.evaluations += st["checks"]
    k = 0
    for line in open(tpath):
        e = json.loads(line)
        if e.get("t") == "digest":
            k += 1
            ctx.distinct.add((e["kind"], e["what"], k // 30))
            if len(ctx.samples) < 4 and e["kind"] in ("pair", "cross", "roundtrip"):
                ctx.samples.append(e)
    if rep["ndiv"]:
        ctx.divergences.append({"what": "the real digest layout differs from Digests.tla (not a violation by itself)", "count": rep["ndiv"]})
        ctx.log("DIVERGENCE: real digest layout differs from the specification's in %d samples" % rep["ndiv"])
    report(ctx, rep, tpath, "C20.")
    return ctx.finish()


def run(ctx):
    return {"C18": run_c18, "C20": run_c20}[ctx.prop](ctx)
