"""The fetch subsystem (spec/Fetch.tla): consensus Synchronizer + Helper, MempoolDriver + PayloadWaiter, mempool Synchronizer + Helper.

Used by C07 (missing ancestors requested, retried with other peers, parked blocks resumed when the parent is stored, helper answers with the
stored block), C08 (a block waiting for payload is looped back only when every batch is stored) and C13 (missing batches requested from the
proposer, retried with other peers, block resumed).  TLC checks Fetch.tla exhaustively for a small universe (+ attack models for non-vacuity),
checks the closed catch-up system for liveness under fairness, generates schedules of the subsystem's entry points; the harness executes them
on the real tasks (virtual clock, harness = caller, store writer and peers) and TLC validates what they did (TraceFetch.tla)."""
import json, os, re
from .common import *
from .seqc import report

# time advances from deadline to deadline (plus the values in Steps when they do not jump over one); quick: aligned timers 4/2
X3 = dict(NB="3", Par="<- P3", Auth="<- A3", Pay="<- Y3", Rnd="<- R3", Batches="{11, 12}", Peers="{1, 2}", BlockTimer="4", BatchTimer="2",
          BRetryDelay="3", MRetryDelay="1", RetryNodes="1", GcDepth="1", Steps="{}", Weak="{}")
INVS = ["ParkedHasRequest", "RequestHasParked", "TimerNotPostponed", "WaitersNeedData", "MPendMissing"]
LIVE = dict(NB="3", Par="<- Chain3", Auth="<- AuthBad", Pay="<- Pay3", Rnd="<- Rnd3", Batches="{11, 12}", Peers="{1, 2, 3}", Good="{3}", BlockTimer="5",
            BatchTimer="2", BRetryDelay="0", MRetryDelay="0", RetryNodes="3", GcDepth="50", Steps="{}", Weak="{}")
UNIVERSE = {"par": [0, 1, 2, 2, 4, 5], "auth": [1, 2, 3, 1, 2, 3], "pay": [[11], [11, 12], [], [13], [12, 13], [14]], "rnd": [1, 2, 3, 4, 5, 6],
            "batches": [11, 12, 13, 14], "peers": [1, 2, 3]}
# (name, consensus sync_retry_delay, mempool sync_retry_delay, sync_retry_nodes, gc_depth)
PARAMS = [("d0", 0, 0, 3, 2), ("dflt", 10000, 5000, 3, 50), ("lucky", 2500, 1500, 2, 2)]


def models(ctx, q, which):
    x3 = dict(X3) if q else dict(X3, BlockTimer="5", Steps="{1}")
    cfg = write_cfg(ctx, "fetch-x3.cfg", "CoreSpec", x3, invariants=INVS, properties=["ResumeSound"])
    r = model_job(ctx, "Fetch.tla exhaustive (3 blocks, two sharing a parent, 2 batches, retry delays, gc)", "MC_Fetch.tla", cfg, True, json.dumps(x3),
                  workers=8, timeout=1500)
    if r["violated"]:
        ctx.violation("Fetch.tla violates %s" % r["violated"], "model", {"tlc_output_tail": r["out"][-4000:]})
    rejected = {}
    atk = [("rearm_on_request", "TimerNotPostponed"), ("resume_blind", "ResumeSound"), ("wait_any", "ResumeSound")]
    for w, expect in atk:
        c = dict(X3, Weak='{"%s"}' % w)
        cfg = write_cfg(ctx, "fetch-atk-%s.cfg" % w, "CoreSpec", c, invariants=INVS, properties=["ResumeSound"])
        rr = tlc(ctx, "MC_Fetch.tla", cfg, workers=6, timeout=900, name="fetch-atk-" + w)
        rejected[w] = rr["violated"]
        if expect not in rr["violated"]:
            raise ToolError("vacuity guard: attack model %s of Fetch.tla is not rejected (got %s)" % (w, rr["violated"]))
    if which in ("C07", "C13"):
        lcfg = write_cfg(ctx, "fetch-live.cfg", "LSpec", LIVE, invariants=INVS + ["OldestFirst", "StoredHasPayload"], properties=["CatchUp"])
        r = model_job(ctx, "Fetch.tla closed catch-up system: silent authors, one good peer; liveness under weak fairness", "MC_FetchLive.tla", lcfg, True,
                      json.dumps(LIVE), workers=8, timeout=1800)
        if r["violated"]:
            ctx.violation("MC_FetchLive violates %s" % r["violated"], "model", {"tlc_output_tail": r["out"][-4000:]})
        c = dict(LIVE, Weak='{"no_retry"}')
        lcfg = write_cfg(ctx, "fetch-live-noretry.cfg", "LSpec", c, invariants=INVS, properties=["CatchUp"])
        rr = tlc(ctx, "MC_FetchLive.tla", lcfg, workers=6, timeout=900, name="fetch-live-noretry")
        rejected["no_retry"] = rr["violated"]
        if not rr["violated"]:
            raise ToolError("vacuity guard: without retries the catch-up model still satisfies CatchUp")
    ctx.extra["fetch_attack_models_rejected"] = rejected


def schedules(ctx, q, name, brd, mrd, nodes, gc):
    c = dict(NB="6", Par="<- P6", Auth="<- A6", Pay="<- Y6", Rnd="<- R6", Batches="{11, 12, 13, 14}", Peers="{1, 2, 3}", BlockTimer="5000", BatchTimer="1000",
             BRetryDelay=str(brd), MRetryDelay=str(mrd), RetryNodes=str(nodes), GcDepth=str(gc), Steps="{400}", Weak="{}",
             Depth=str(24 if q else 32))
    cfg = write_cfg(ctx, "fetch-sim-%s.cfg" % name, "SSpec", c, invariants=["EmitBeh"] + INVS, constraints=["StopAtDepth"])
    r = model_job(ctx, "schedule generation for the fetch subsystem (%s)" % name, "MC_FetchSim.tla", cfg, False, json.dumps(c), workers=4,
                  simulate=(50 if q else 1200), depth=60, timeout=600)
    if r["violated"]:
        ctx.violation("Fetch.tla violates %s during schedule generation" % r["violated"], "model", {"tlc_output_tail": r["out"][-4000:]})
    # the invariant prints every successor at the final depth: keep one schedule per distinct prefix
    behs = {}
    for b in behaviours_from(r["out"]):
        behs[json.dumps(json.loads(b)[:-1])] = b
    behs = list(behs.values())
    if not behs:
        raise ToolError("no fetch schedules generated")
    return behs


def fetch_part(ctx, hs, which):
    """which: 'C07' | 'C08' | 'C13' -- the monitors reported are the ones with that prefix"""
    q = ctx.quick()
    models(ctx, q, which)
    upath = ctx.path("fetch-universe.json")
    json.dump(UNIVERSE, open(upath, "w"))
    total = {"schedules": 0, "moves": 0}
    for name, brd, mrd, nodes, gc in (PARAMS[:2] if q else PARAMS):
        behs = schedules(ctx, q, name, brd, mrd, nodes, gc)
        bpath = ctx.path("fetch-sched-%s.ndjson" % name)
        open(bpath, "w").write("\n".join(behs) + "\n")
        tpath = ctx.path("fetch-trace-%s.ndjson" % name)
        st = run_harness(ctx, hs, ["fetch", "in=" + bpath, "out=" + tpath, "universe=" + upath, "b_retry=%d" % brd, "m_retry=%d" % mrd,
                                   "retry_nodes=%d" % nodes, "gc_depth=%d" % gc, "tag=%s-%d" % (ctx.prop, os.getpid())], timeout=3000)
        ctx.log("fetch subsystem %s: %s" % (name, st))
        tc = dict(NB="<- TrNB", Par="<- TrPar", Auth="<- TrAuth", Pay="<- TrPay", Rnd="<- TrRnd", Batches="<- TrBatches", Peers="<- TrPeers",
                  BlockTimer="<- TrBlockTimer", BatchTimer="<- TrBatchTimer", BRetryDelay="<- TrBRetry", MRetryDelay="<- TrMRetry",
                  RetryNodes="<- TrRetryNodes", GcDepth="<- TrGc", Steps="{}", Weak="{}")
        rep = validate_trace(ctx, tpath, "fetch-" + name, module="TraceFetch.tla", base_constants=tc, invariants=["SpecInvs"], timeout=1800)
        ctx.traces += st["schedules"]
        ctx.evaluations += st["moves"]
        total["schedules"] += st["schedules"]
        total["moves"] += st["moves"]
        for b in behs:
            ctx.distinct.add(hash((name, b)))
        for d in rep["div"][:10]:
            ctx.divergences.append({"trace": "fetch-" + name, "line": d["rec"], "handler": d["kind"]})
        if rep["ndiv"]:
            ctx.log("DIVERGENCE: %d moves of the real fetch subsystem differ from Fetch.tla (%s; first: %s)" % (rep["ndiv"], name, json.dumps(rep["div"][:2])[:800]))
        report(ctx, rep, tpath, which + ".", "the real fetch subsystem (sync_retry_delay %d/%d ms, retry nodes %d, gc depth %d) broke a monitor of Fetch.tla" % (brd, mrd, nodes, gc),
               rerun=dict(harness=["fetch", "in={in}", "out={out}", "universe=" + os.path.join(VERIF, "checks", "fetch-universe.json"), "b_retry=%d" % brd,
                                   "m_retry=%d" % mrd, "retry_nodes=%d" % nodes, "gc_depth=%d" % gc],
                          schedules=bpath, module="TraceFetch.tla", constants=tc, invariants=["SpecInvs"]))
    ctx.extra["fetch_subsystem"] = total
