"""C06, C07, C08, C13 (scenario runs of real nodes under a harness-owned synchronous-tick network) and C15 (hostile input).

Safety of every run is checked by TraceHS (handler conformance, Agreement, chain order, C08 data availability ...);
the scenario-level statements (liveness windows, catch-up, end-to-end inclusion) by TraceFull on the run summaries.
The model side: HotStuff.tla closed-system runs (crash faults), the payload-aware open-system model for C08, and the
liveness check of a small closed system under fairness for C06/C07."""
import json, os
from .common import *
from .core import nontrivial, LOCAL_CONSTS, generate_behaviours, replay_local, PROPS
from .c01 import GCONST, simulate, report_agreement
from .fetch import fetch_part
from .proposer import proposer_part


def run_full(ctx, hs, kind, runs, extra=(), tag=""):
    tpath = ctx.path("trace-full-%s%s.ndjson" % (kind, tag))
    st = run_harness(ctx, hs, ["full", "kind=" + kind, "runs=%d" % runs, "seed=%d" % ctx.seed, "out=" + tpath, "tag=%s-%d" % (ctx.prop, os.getpid())] + list(extra),
                     timeout=3000)
    ctx.log("full-node scenarios %s: %d runs in %.1fs" % (kind, st["runs"], st["wall_s"]))
    rep = validate_trace(ctx, tpath, "full-" + kind + tag)
    ctx.evaluations += nontrivial(ctx, tpath)
    ctx.traces += runs
    for d in rep["div"][:10]:
        ctx.divergences.append({"trace": "full-" + kind, "line": d[0], "handler": d[1]})
    if rep["ndiv"]:
        ctx.log("DIVERGENCE: %d handler runs differ from the model in full-%s (first: %s)" % (rep["ndiv"], kind, rep["div"][:3]))
    rep2 = validate_trace(ctx, tpath, "summary-" + kind + tag, module="TraceFull.tla", base_constants={})
    return st, rep, rep2, tpath


def report_named(ctx, rep, tpath, prefix, st, what):
    recs = None
    for name, line in rep["viol"]:
        if not name.startswith(prefix):
            continue
        if recs is None:
            recs = open(tpath).read().splitlines()
        e = json.loads(recs[line - 1])
        summ = e if e.get("t") == "summary" else None
        if summ is None:
            # find the summary of the run this record belongs to
            for k in range(line, len(recs)):
                if '"t":"summary"' in recs[k]:
                    summ = json.loads(recs[k])
                    break
        ctx.violation("%s %s (scenario: %s)" % (name, what, json.dumps({k: summ.get(k) for k in ("kind", "n", "crash", "isolate", "async_until", "late_to", "withheld_from", "drop_first_sync", "nodes", "e2e", "submitted") if summ and k in summ})[:600]),
                      name, {"monitor": name, "record": e, "scenario_summary": summ})


def liveness_model(ctx, q):
    # small closed systems with silent (crashed) authorities: after the network stabilises (timers fire only when nothing useful is
    # deliverable) every live node eventually commits, and commits keep coming -- checked by TLC under weak fairness.  The proposer's wait for a
    # quorum of acknowledgements of its own block (proposer.rs make_block) is part of the model (MC_Live: pbusy / NetAck).
    cfgs = [("n4 crash 3", dict(N="4", Honest="{0,1,2}", MaxRound="9")), ("n4 crash 1", dict(N="4", Honest="{0,2,3}", MaxRound="9"))]
    if not q:
        cfgs += [("n4 crash 0", dict(N="4", Honest="{1,2,3}", MaxRound="9")), ("n5 crash 2", dict(N="5", Stake="<- S5", Honest="{0,1,3,4}", MaxRound="9")),
                 ("n7 crash 1,2", dict(N="7", Stake="<- S7", Honest="{0,3,4,5,6}", MaxRound="9"))]
    for name, over in cfgs:
        c = dict(GCONST, Variants="{0}", MaxByzMsgs="0")
        c.update(over)
        cfg = write_cfg(ctx, "live-%s.cfg" % name.replace(" ", "_").replace(",", "_"), "LiveSpec", c, invariants=["Agreement", "CommitBeforeEnd", "CommitsKeepComing"],
                        properties=["Progress"])
        r = model_job(ctx, "closed system with crashed authorities (%s): safety + progress under fairness after stabilisation" % name, "MC_Live.tla", cfg, True,
                      json.dumps(c), workers=8, timeout=900 if q else 3000)
        if r["violated"]:
            ctx.violation("HotStuff.tla: %s violated in the liveness model (%s)" % (r["violated"], name), "model", {"tlc_output_tail": r["out"][-5000:]})
    # non-vacuity: a proposer that needs a quorum of acknowledgements from *others* stalls the system once f authorities are silent
    c = dict(GCONST, Variants="{0}", MaxByzMsgs="0", N="4", Honest="{0,1,2}", MaxRound="9", Weaken='{"proposer_excludes_self"}')
    cfg = write_cfg(ctx, "live-atk.cfg", "LiveSpec", c, invariants=["Agreement", "CommitsKeepComing"], properties=["Progress"])
    rr = tlc(ctx, "MC_Live.tla", cfg, workers=4, timeout=900, name="live-atk")
    ctx.extra["liveness_attack_model_proposer_excludes_self_rejected"] = rr["violated"]
    if not rr["violated"]:
        raise ToolError("vacuity guard: the liveness model with a proposer that does not count its own stake still makes progress")


def run_c06(ctx):
    q = ctx.quick()
    ctx.rule = ("cases are scenarios: committee size 4..7, a crash set of stake <= f with crash instants in the first rounds, an asynchronous prefix of random "
                "length (frames delayed and reordered, never lost), then synchronous delivery (one tick = 1/20 of the round timeout); non-trivial = at least "
                "one crash or a non-empty asynchronous prefix; distinct = distinct (n, crash set and instants, prefix length)")
    ctx.assumptions = ["liveness on real code is observation over a finite window (%d ticks) under the property's own timing assumption" % 400,
                       "bound on the commit gap: (crashed + 2) round timeouts + 40 ticks"]
    hs = build_harness(ctx)
    liveness_model(ctx, q)
    # the proposer's control system on its own (Proposer.tla): the next Make is served once a quorum, own stake included, acknowledged the last block
    proposer_part(ctx, hs, "C06")
    first = True
    for n, runs in ([(4, 5), (5, 3), (7, 3)] if q else [(4, 60), (5, 40), (6, 40), (7, 40)]):
        st, rep, rep2, tpath = run_full(ctx, hs, "live", runs, extra=["n=%d" % n], tag="-n%d" % n)
        for s in st["summaries"]:
            ctx.distinct.add(json.dumps([s["n"], s["crash"], s["async_until"], s.get("late_to")]))
        if first:
            ctx.samples = [{k: s[k] for k in ("n", "crash", "async_until", "late_to", "nodes")} for s in st["summaries"][:3]]
            first = False
        report_named(ctx, rep2, tpath, "C06.", st, "a live node stopped committing")
        report_agreement(ctx, rep, tpath, "liveness scenario", lambda i: {"kind": "full live", "n": n, "run": i, "seed": ctx.seed})
    return ctx.finish()


def run_c07(ctx):
    q = ctx.quick()
    ctx.rule = ("cases are scenarios: which node is cut off, when (tick 10..70) and for how long (40..200 ticks, i.e. several to dozens of rounds incl. the "
                "view changes caused by its own leader slots), whether the first sync request of every node is lost; non-trivial = the node missed at least "
                "one committed block; distinct = distinct (node, start, length, lost-first-request)")
    ctx.assumptions = ["bounded observation window after reconnection (260 ticks)", "sync retry uses the wall clock in the code: sync_retry_delay = 0 in the rig"]
    hs = build_harness(ctx)
    # model: the store is closed under parents in every reachable state of the open-system model (sync path included)
    consts = dict(LOCAL_CONSTS, MaxRound="3", UseEnvSafe="TRUE", MaxParked="1" if q else "2")
    cfg = write_cfg(ctx, "MC_Local_C07.cfg", "LSpec", consts, invariants=["StoredClosedUnderParent", "TypeOK"], constraints=["Bound"])
    r = model_job(ctx, "open-system model with parked blocks (sync path): store closed under parents", "MC_Local.tla", cfg, True,
                  "rounds<=3, MaxParked=%s" % consts["MaxParked"], workers=8, timeout=2400)
    if r["violated"]:
        ctx.violation("HotStuff.tla violates %s" % r["violated"], "model", {"tlc_output_tail": r["out"][-5000:]})
    # the fetch subsystem on its own: requests, retries with other peers, resumption, helper replies (Fetch.tla)
    fetch_part(ctx, hs, "C07")
    st, rep, rep2, tpath = run_full(ctx, hs, "lag", 8 if q else 120)
    for s in st["summaries"]:
        ctx.distinct.add(json.dumps([s["isolate"], s["drop_first_sync"]]))
    ctx.samples = [{k: s[k] for k in ("n", "isolate", "drop_first_sync", "nodes", "helper_replies_checked")} for s in st["summaries"][:3]]
    ctx.extra["helper_replies_checked"] = sum(s["helper_replies_checked"] for s in st["summaries"])
    report_named(ctx, rep2, tpath, "C07.", st, "the lagging node did not converge")
    # the recovered node's delivered sequence must be the same chain as everybody else's
    report_agreement(ctx, rep, tpath, "catch-up scenario", lambda i: {"kind": "full lag", "run": i, "seed": ctx.seed})
    for name, line in rep["viol"]:
        if name.startswith("C02."):
            ctx.violation("C02.DeliveredIsChain fails in a catch-up scenario: the recovering node delivered out of chain order", "C07:" + name, {"monitor": name, "line": line})
    return ctx.finish()


def run_c08(ctx):
    q = ctx.quick()
    ctx.rule = ("cases: (a) full-node scenarios in which one node never receives batch broadcasts and must fetch every batch (first request lost in half of them); "
                "(b) TLC-generated stimuli for one real node with payload-carrying blocks whose batches are available, or missing (never voted); non-trivial = "
                "a block with a non-empty payload was voted or committed; distinct = distinct handler cases as for the core properties")
    ctx.assumptions = ["'locally stored' is judged by the keys the node's own Processor (or the harness, for injected data) wrote before the step"]
    hs = build_harness(ctx)
    spec = dict(PROPS["C02"])
    spec["invs"] = ["StoredClosedUnderParent"]
    # open-system model with payloads: a proposal whose batch is missing is parked by the payload waiter, never voted blind
    consts = dict(LOCAL_CONSTS, MaxRound="2", UseEnvSafe="TRUE", Variants="{1}")
    cfg = write_cfg(ctx, "MC_Pay.cfg", "PSpec", consts, invariants=["StoredHavePayload", "VotedHavePayload", "CommittedHavePayload", "TypeOK"], constraints=["Bound"])
    r = model_job(ctx, "open-system model with payloads, exhaustive, rounds<=2", "MC_LocalPay.tla", cfg, True, "rounds<=2, every block of another authority carries a batch", workers=8, timeout=600)
    if r["violated"]:
        ctx.violation("HotStuff.tla violates %s" % r["violated"], "model", {"tlc_output_tail": r["out"][-5000:]})
    consts = dict(LOCAL_CONSTS, MaxRound="4", UseEnvSafe="TRUE", Variants="{0,1}")
    cfg = write_cfg(ctx, "MC_PaySim.cfg", "PSpec", consts, invariants=["StoredHavePayload", "VotedHavePayload", "CommittedHavePayload"], constraints=["Bound"])
    r = model_job(ctx, "open-system model with payloads, simulation, rounds<=4 (commits of payload-carrying blocks)", "MC_LocalPay.tla", cfg, False, "rounds<=4",
                  workers=8, simulate=(80 if q else 6000), depth=60, timeout=600)
    if r["violated"]:
        ctx.violation("HotStuff.tla violates %s" % r["violated"], "model", {"tlc_output_tail": r["out"][-5000:]})
    # spec -> code: payload-carrying proposals whose batches arrive one at a time, in any order, or never
    consts = dict(LOCAL_CONSTS, MaxRound="10", MaxParked="2", Variants="{0,1,2}", UseVotes="TRUE", UseTimeouts="FALSE", UseEnvSafe="TRUE",
                  Depth=str(24 if q else 30), Weird="FALSE")
    cfg = write_cfg(ctx, "MC_LocalPaySim.cfg", "PSSpec", consts, invariants=["EmitBeh", "VotedHave", "CommittedHave"], constraints=["SBound", "StopAtDepth"])
    r = model_job(ctx, "behaviour generation with payloads and batch arrivals", "MC_LocalPaySim.tla", cfg, False, json.dumps(consts), workers=8,
                  simulate=(300 if q else 4000), depth=400, timeout=600)
    if r["violated"]:
        ctx.violation("HotStuff.tla violates %s (payload simulation)" % r["violated"], "model", {"tlc_output_tail": r["out"][-5000:]})
    behs = behaviours_from(r["out"])[: (300 if q else 4000)]
    st0, rep0 = replay_local(ctx, "C08", spec, hs, behs, "pay")
    ctx.extra["payload_behaviours_replayed"] = st0.get("behaviours")
    # the payload waiter on its own: a waiting block is looped back only when every batch it waited for is stored (Fetch.tla)
    fetch_part(ctx, hs, "C08")
    st, rep, rep2, tpath = run_full(ctx, hs, "avail", 6 if q else 80)
    ctx.samples = [{k: s[k] for k in ("n", "withheld_from", "drop_first_sync", "submitted", "e2e")} for s in st["summaries"][:3]]
    report_named(ctx, rep, tpath, "C08.", st, "a node voted for / committed a block whose batches it does not store")
    return ctx.finish()


def run_c13(ctx):
    q = ctx.quick()
    ctx.rule = ("cases are scenarios: 6..20 client transactions submitted to random nodes at random ticks, in half of the runs one node never receives batch "
                "broadcasts (it must fetch them from the proposer or, when its first request is lost, from other peers); non-trivial = every run; "
                "distinct = distinct (load pattern, withheld node, lost-first-request)")
    ctx.assumptions = ["fault-free period: no crashes, one tick of latency, no view changes expected", "observation window of 400 ticks"]
    hs = build_harness(ctx)
    # the composition Mempool || Consensus (Node.tla): safety (C08, C12) and end-to-end liveness under fairness, with one lost
    # broadcast, batch sync and retry; the four attack models must be rejected (non-vacuity)
    base = dict(N="3", Stake="<- NS3", Txs="{1}", MaxRound="3", Weak="{}")
    ninv = ["ReleaseHasQuorum", "OwnProposedIsAvailable", "VoteHasPayload", "CommitHasPayload"]
    cfg = write_cfg(ctx, "node.cfg", "FairSpec", base, invariants=ninv, properties=["EndToEnd", "NoStall"])
    r = model_job(ctx, "Node.tla: composition, safety + end-to-end liveness under fairness", "MC_Node.tla", cfg, True, json.dumps(base), workers=6, timeout=1200)
    if r["violated"]:
        ctx.violation("Node.tla violates %s" % r["violated"], "model", {"tlc_output_tail": r["out"][-5000:]})
    rejected = {}
    for w, expect in [("no_quorum_wait", "OwnProposedIsAvailable"), ("vote_blind", "VoteHasPayload"), ("no_announce", "Temporal"), ("no_batch_sync", "Temporal")]:
        c = dict(base, Weak='{"%s"}' % w)
        cfg = write_cfg(ctx, "node-%s.cfg" % w, "FairSpec", c, invariants=ninv, properties=["EndToEnd", "NoStall"])
        rr = tlc(ctx, "MC_Node.tla", cfg, workers=4, timeout=900, name="node-" + w)
        rejected[w] = rr["violated"]
        if not any(expect in v for v in rr["violated"]):
            raise ToolError("vacuity guard: attack model %s of Node.tla is not rejected (got %s)" % (w, rr["violated"]))
    ctx.extra["node_attack_models_rejected"] = rejected
    if not q:
        c2 = dict(base, Txs="{1, 2}")
        cfg = write_cfg(ctx, "node2.cfg", "Spec", c2, invariants=ninv)
        model_job(ctx, "Node.tla: two transactions, safety (time-boxed)", "MC_Node.tla", cfg, True, json.dumps(c2), workers=10, timeout=1500)
    r = simulate(ctx, "n4-honest", dict(Honest="{0,1,2,3}", Variants="{0}"), 30 if q else 600, 300)
    if r["violated"]:
        ctx.violation("HotStuff.tla violates %s (fault-free closed system)" % r["violated"], "model", {"tlc_output_tail": r["out"][-5000:]})
    # the digest flow through the proposer (Proposer.tla): handed over -> buffered -> in exactly one block
    proposer_part(ctx, hs, "C13")
    # batch fetching on its own: request to the proposer, retries with other peers after sync_retry_delay, resumption (Fetch.tla)
    fetch_part(ctx, hs, "C13")
    st, rep, rep2, tpath = run_full(ctx, hs, "e2e", 8 if q else 120)
    for s in st["summaries"]:
        ctx.distinct.add(json.dumps([s["submitted"], s["withheld_from"], s["drop_first_sync"], s["frames"]]))
    ctx.samples = [{k: s[k] for k in ("n", "withheld_from", "drop_first_sync", "submitted", "e2e")} for s in st["summaries"][:3]]
    report_named(ctx, rep2, tpath, "C13.", st, "a submitted transaction did not commit everywhere / a committed batch is not readable")
    report_named(ctx, rep, tpath, "C08.", st, "a node voted for / committed a block whose batches it does not store")
    return ctx.finish()


def run_c15(ctx):
    q = ctx.quick()
    ctx.level = "exploration"
    ctx.rule = ("cases are bursts of hostile frames: every cell of the class matrix of Hostile.tla (port x shape: random bytes, truncated and mutated valid "
                "frames, frames valid on another port, sync requests for the other component's keys, unknown digests and origins, short/long keys, correctly "
                "signed messages of a Byzantine member with absurd rounds, huge length prefixes, empty transactions), each followed by four functional "
                "probes; plus direct calls of the key and message decoders on short, long and garbage input; both builds; distinct = distinct (build, class, port)")
    ctx.assumptions = ["byte-level totality is sampled (seeded), not enumerated", "the attacker holds at most f authority keys"]
    hs = build_harness(ctx)
    hsb = build_harness(ctx, bench=True)
    cfg = ctx.path("hostile.cfg")
    open(cfg, "w").write("")
    r = model_job(ctx, "Hostile.tla class matrix", "Hostile.tla", cfg, True, "21 cells", workers=1, timeout=120)
    if r["violated"]:
        raise ToolError("Hostile.tla: %s" % r["violated"])
    for build, binary in (("default", hs), ("benchmark", hsb)):
        tpath = ctx.path("hostile-%s.ndjson" % build)
        st = run_harness(ctx, binary, ["hostile", "out=" + tpath, "seed=%d" % ctx.seed, "per_class=%d" % (25 if q else 400), "tag=c15-%d" % os.getpid()], timeout=3000)
        ctx.log("hostile input, build %s: %s" % (build, st))
        rep = validate_trace(ctx, tpath, "hostile-" + build, module="TraceHostile.tla", base_constants={})
        ctx.traces += 1
        ctx.evaluations += st["hostile_frames"] + st["decoder_inputs"]
        recs = open(tpath).read().splitlines()
        for l in recs:
            e = json.loads(l)
            if e.get("t") == "hostile":
                ctx.distinct.add((build, e["class"], e["port"]))
                if len(ctx.samples) < 4:
                    ctx.samples.append({k: e[k] for k in ("class", "port", "sent", "panics", "core_steps")})
        for name, line in rep["viol"]:
            e = json.loads(recs[line - 1])
            key = "%s:%s:%s" % (name, e.get("class", e.get("kind", e.get("what"))), e.get("port", ""))
            ctx.violation("%s (build %s): %s" % (name, build, json.dumps(e)[:400]), key, {"monitor": name, "build": build, "record": e})
    return ctx.finish()


def run(ctx):
    return {"C06": run_c06, "C07": run_c07, "C08": run_c08, "C13": run_c13, "C15": run_c15}[ctx.prop](ctx)
