"""The consensus Proposer task (spec/Proposer.tla): digest buffer, Make / Cleanup commands, the wait for a quorum of acknowledgements.

Used by C13 (digest flow: a digest handed over by the mempool is proposed, once) and C06 (the proposer serves the next Make as soon as its last
block was acknowledged by a quorum of the stake, its own included -- with f silent authorities that quorum is still reachable)."""
import json, os
from .common import *
from .seqc import report

PINV = ["NoDoubleInclusion", "WaitsForQuorum", "Drained", "NothingLost"]


def burst(ctx, hs, which):
    """a backlog: hundreds of digests handed over before a Make -- every one of them must be in a block after the flush"""
    c = dict(Others="{1,2,3}", Stake="<- PS4", Digests="<- D400", NMakes="3", Weak="{}", Depth="430")
    cfg = write_cfg(ctx, "prop-burst.cfg", "SSpec", c, invariants=["EmitBeh", "NoDoubleInclusion", "Drained"], constraints=["StopAtDepth"])
    r = model_job(ctx, "schedule generation for the proposer: a backlog of up to 400 digests", "MC_ProposerSim.tla", cfg, False, json.dumps(c), workers=2,
                  simulate=1, depth=2000, timeout=900)
    if r["violated"]:
        ctx.violation("Proposer.tla violates %s during schedule generation" % r["violated"], "model", {"tlc_output_tail": r["out"][-4000:]})
    last = {}
    for b in behaviours_from(r["out"]):
        last[json.dumps(json.loads(b)[:-1])] = b
    behs = list(last.values())[:3]
    if not behs:
        raise ToolError("no burst schedule generated")
    bpath = ctx.path("prop-sched-burst.ndjson")
    open(bpath, "w").write("\n".join(behs) + "\n")
    tpath = ctx.path("prop-trace-burst.ndjson")
    st = run_harness(ctx, hs, ["proposer", "in=" + bpath, "out=" + tpath, "stakes=1,1,1,1"], timeout=3000)
    ctx.log("proposer burst: %s" % st)
    tc = dict(Others="<- TrOthers", Stake="<- TrStake", Digests="<- D400", NMakes="6", Weak="{}")
    rep = validate_trace(ctx, tpath, "prop-burst", module="TraceProposer.tla", base_constants=tc, invariants=["SpecInvs"], timeout=1800)
    ctx.traces += st["schedules"]
    ctx.evaluations += st["moves"]
    biggest = 0
    for line in open(tpath):
        if '"observed"' in line or '"final"' in line:
            for pl in json.loads(line).get("made", []):
                biggest = max(biggest, len(pl))
    ctx.extra["proposer_largest_payload_in_burst"] = biggest
    for d in rep["div"][:10]:
        ctx.divergences.append({"trace": "prop-burst", "line": d["rec"], "handler": d["kind"]})
    if rep["ndiv"]:
        ctx.log("DIVERGENCE: %d observations of the real proposer differ from Proposer.tla (burst; first: %s)" % (rep["ndiv"], json.dumps(rep["div"][:1])[:400]))
    report(ctx, rep, tpath, which + ".", "the real Proposer task lost or duplicated digests of a backlog",
           rerun=dict(harness=["proposer", "in={in}", "out={out}", "stakes=1,1,1,1"], schedules=bpath, module="TraceProposer.tla", constants=tc,
                      invariants=["SpecInvs"]))


def proposer_part(ctx, hs, which):
    q = ctx.quick()
    cfgs = [("eq4", "PS4", [1, 1, 1, 1]), ("uneq4", "PS4u", [1, 3, 2, 1])] + ([] if q else [("big4", "PS4b", [5, 1, 1, 1])])
    for name, stake, stakes in cfgs:
        base = dict(Others="{1,2,3}", Stake="<- " + stake, Digests="{1,2}" if q else "{1,2,3}", NMakes="2", Weak="{}")
        cfg = write_cfg(ctx, "prop-x-%s.cfg" % name, "MSpec", base, invariants=PINV, properties=["Served"])
        r = model_job(ctx, "Proposer.tla exhaustive " + name, "MC_Proposer.tla", cfg, True, json.dumps(base), workers=6, timeout=1500)
        if r["violated"]:
            ctx.violation("Proposer.tla violates %s" % r["violated"], "model", {"tlc_output_tail": r["out"][-4000:]})
    rejected = {}
    for w, expect in [("exclude_self", "WaitsForQuorum"), ("keep_buffer", "NoDoubleInclusion")]:
        c = dict(Others="{1,2,3}", Stake="<- PS4", Digests="{1,2}", NMakes="2", Weak='{"%s"}' % w)
        cfg = write_cfg(ctx, "prop-atk-%s.cfg" % w, "MSpec", c, invariants=[expect])
        rr = tlc(ctx, "MC_Proposer.tla", cfg, workers=4, timeout=600, name="prop-atk-" + w)
        rejected[w] = rr["violated"]
        if expect not in rr["violated"]:
            raise ToolError("vacuity guard: attack model %s of Proposer.tla is not rejected (got %s)" % (w, rr["violated"]))
    ctx.extra["proposer_attack_models_rejected"] = rejected
    for name, stake, stakes in cfgs:
        c = dict(Others="{1,2,3}", Stake="<- " + stake, Digests="{1,2,3,4,5,6}", NMakes="4", Weak="{}", Depth=str(18 if q else 26))
        cfg = write_cfg(ctx, "prop-sim-%s.cfg" % name, "SSpec", c, invariants=["EmitBeh"] + PINV, constraints=["StopAtDepth"])
        r = model_job(ctx, "schedule generation for the proposer (%s)" % name, "MC_ProposerSim.tla", cfg, False, json.dumps(c), workers=4,
                      simulate=(100 if q else 2000), depth=140, timeout=600)
        if r["violated"]:
            ctx.violation("Proposer.tla violates %s during schedule generation" % r["violated"], "model", {"tlc_output_tail": r["out"][-4000:]})
        last = {}
        for b in behaviours_from(r["out"]):
            last[json.dumps(json.loads(b)[:-1])] = b
        behs = list(last.values())[: (300 if q else 5000)]
        if not behs:
            raise ToolError("no proposer schedules generated")
        bpath = ctx.path("prop-sched-%s.ndjson" % name)
        open(bpath, "w").write("\n".join(behs) + "\n")
        tpath = ctx.path("prop-trace-%s.ndjson" % name)
        st = run_harness(ctx, hs, ["proposer", "in=" + bpath, "out=" + tpath, "stakes=" + ",".join(map(str, stakes))], timeout=3000)
        ctx.log("proposer %s: %s" % (name, st))
        tc = dict(Others="<- TrOthers", Stake="<- TrStake", Digests="{1,2,3,4,5,6}", NMakes="6", Weak="{}")
        rep = validate_trace(ctx, tpath, "prop-" + name, module="TraceProposer.tla", base_constants=tc, invariants=["SpecInvs"], timeout=1800)
        ctx.traces += st["schedules"]
        ctx.evaluations += st["moves"]
        for b in behs:
            ctx.distinct.add(hash(("prop", name, b)))
        for d in rep["div"][:10]:
            ctx.divergences.append({"trace": "prop-" + name, "line": d["rec"], "handler": d["kind"]})
        if rep["ndiv"]:
            ctx.log("DIVERGENCE: %d observations of the real proposer differ from Proposer.tla (%s; first: %s)" % (rep["ndiv"], name, json.dumps(rep["div"][:2])[:600]))
        report(ctx, rep, tpath, which + ".", "the real Proposer task (stakes %s) broke a monitor of Proposer.tla" % stakes,
               rerun=dict(harness=["proposer", "in={in}", "out={out}", "stakes=" + ",".join(map(str, stakes))], schedules=bpath,
                          module="TraceProposer.tla", constants=tc, invariants=["SpecInvs"]))
    if which == "C13":
        burst(ctx, hs, which)
