"""C19 (Aggregator), C17 (quorum arithmetic), C16 (Store), and the committee half of C09.

Each component is a sequential object with its own TLA+ module.  TLC (1) checks the module's properties
exhaustively for small constants, (2) generates operation sequences (simulation) that the harness executes call
by call on the real Rust object, and (3) validates the recorded calls and results against the module: for these
components the specification's answer IS the property's statement, so a differing result is a violation."""
import json, os, itertools, random, subprocess
from .common import *


def report(ctx, rep, trace, prefix, what, rerun=None):
    """rerun (optional): how to execute the failing schedule again on the current code --
    dict(harness=[sub-command and arguments, with the placeholders {in} and {out}], schedules=<file with one schedule per run>,
         module=<trace module>, constants={...}, invariants=[...]); stored in the replay file, used by ./check <ID> --replay."""
    recs = None
    for name, line in rep["viol"]:
        if not name.startswith(prefix):
            continue
        if recs is None:
            recs = open(trace).read().splitlines()
        lo = line
        while lo > 1 and '"t":"reset"' not in recs[lo - 1]:
            lo -= 1
        window = [json.loads(x) for x in recs[lo - 1: line]]
        obj = {"monitor": name, "records_of_this_run_up_to_failure": window[-60:]}
        if rerun:
            k = sum(1 for x in recs[:lo] if '"t":"reset"' in x) - 1      # index of the run = index of its schedule
            try:
                sched = open(rerun["schedules"]).read().splitlines()[k]
            except Exception:
                sched = None
            if sched is not None:
                obj["rerun"] = {"harness": rerun["harness"], "schedule": json.loads(sched), "module": rerun["module"],
                                "constants": rerun["constants"], "invariants": rerun.get("invariants", []), "prefix": prefix}
        ctx.violation("%s: %s (record %d of %s)" % (name, what, line, os.path.basename(trace)), name, obj)


# ------------------------------------------------------------------------------------------------- C19
AGG_CFGS = [
    ("votes, unequal stakes", dict(Authors="{0,1,2,3}", Outsiders="{}", Stake="<- Uneq4", Hashes="{1,2}", Rounds="{1}", HQRs="{}", QuorumDelta="0"), [3, 1, 2, 1]),
    ("timeouts, equal stakes", dict(Authors="{0,1,2,3}", Outsiders="{}", Stake="<- Eq4", Hashes="{}", Rounds="{1,2}", HQRs="{0,1}", QuorumDelta="0"), [1, 1, 1, 1]),
    ("mixed, 3 authorities", dict(Authors="{0,1,2}", Outsiders="{}", Stake="<- Three", Hashes="{1}", Rounds="{1,2}", HQRs="{0}", QuorumDelta="0"), [1, 1, 2]),
]
AGG_SIM = [
    ("eq4", dict(Authors="{0,1,2,3}", Outsiders="{}", Stake="<- Eq4", Hashes="{1,2}", Rounds="{1,2,3}", HQRs="{0,1,2}", QuorumDelta="0"), [1, 1, 1, 1]),
    ("uneq4", dict(Authors="{0,1,2,3}", Outsiders="{}", Stake="<- Uneq4", Hashes="{1,2}", Rounds="{1,2}", HQRs="{0,1}", QuorumDelta="0"), [3, 1, 2, 1]),
    ("uneq5", dict(Authors="{0,1,2,3,4}", Outsiders="{}", Stake="<- Uneq5", Hashes="{1,2}", Rounds="{1,2}", HQRs="{0,1}", QuorumDelta="0"), [1, 1, 1, 2, 4]),
    ("eq7", dict(Authors="{0,1,2,3,4,5,6}", Outsiders="{}", Stake="<- Eq7", Hashes="{1,2}", Rounds="{1,2}", HQRs="{0,1}", QuorumDelta="0"), [1] * 7),
]


def run_c19(ctx):
    ctx.rule = ("cases are calls of add_vote / add_timeout / cleanup on the real consensus::Aggregator in TLC-generated orders (duplicates, "
                "conflicting votes of one author, several blocks per round, stale rounds after cleanup, unequal stakes); non-trivial = the "
                "call changed the aggregator or produced a certificate; distinct = distinct (stake vector, call prefix) pairs")
    ctx.assumptions = ["votes/timeouts reaching the aggregator carry valid signatures of committee members (Core verifies first; C04)",
                       "bounded: <= 4 makers, <= 8 calls exhaustively; generated sequences of 14-24 calls"]
    hs = build_harness(ctx)
    q = ctx.quick()
    for title, consts, _ in AGG_CFGS:
        if q and title.startswith("timeouts"):
            consts = dict(consts, Rounds="{1}")
        cfg = write_cfg(ctx, "agg-%s.cfg" % title.split(",")[0].replace(" ", "_"), "Spec", consts, constraints=["Bound"],
                        properties=["CertificateStep", "DuplicateIsNoop"])
        r = model_job(ctx, "Aggregator exhaustive: " + title, "MC_Aggregator.tla", cfg, True, json.dumps(consts), workers=6, timeout=600)
        if r["violated"]:
            ctx.violation("Aggregator.tla violates its own C19 step property", "model", {"tlc_output_tail": r["out"][-5000:]})
    for name, consts, stakes in (AGG_SIM[:2] if q else AGG_SIM):
        depth = 14 if q else 24
        c = dict(consts, Depth=str(depth))
        cfg = write_cfg(ctx, "aggsim-%s.cfg" % name, "GSpec", c, invariants=["EmitBeh"], constraints=["StopAtDepth"])
        r = model_job(ctx, "Aggregator behaviour generation " + name, "MC_AggregatorSim.tla", cfg, False, json.dumps(c), workers=4,
                      simulate=(150 if q else 1500), depth=depth + 2, timeout=300)
        behs = behaviours_from(r["out"])[: (600 if q else 8000)]
        if not behs:
            raise ToolError("no aggregator behaviours generated")
        if not ctx.samples:
            ctx.samples = [json.loads(b)[:8] for b in behs[:2]]
        bpath = ctx.path("aggbeh-%s.ndjson" % name)
        open(bpath, "w").write("\n".join(behs) + "\n")
        tpath = ctx.path("aggtrace-%s.ndjson" % name)
        st = run_harness(ctx, hs, ["agg", "in=" + bpath, "out=" + tpath, "stakes=" + ",".join(map(str, stakes))])
        ctx.log("aggregator %s: %s" % (name, st))
        tc = {k: v for k, v in consts.items() if k not in ("Authors", "Stake")}
        tc.update({"Authors": "<- TrAuthors", "Stake": "<- TrStake"})
        rep = validate_trace(ctx, tpath, "agg-" + name, module="TraceAgg.tla", base_constants=tc)
        ctx.traces += st["behaviours"]
        ctx.evaluations += st["calls"]
        for b in behs:
            ops = json.loads(b)
            for i in range(len(ops)):
                if ops[i]["res"]["k"] != "err":
                    ctx.distinct.add(hash((name, json.dumps([{k: v for k, v in o.items() if k != "res"} for o in ops[: i + 1]]))))
        ctx.extra.setdefault("certificates_from_real_code", 0)
        ctx.extra["certificates_from_real_code"] += st["qcs"] + st["tcs"]
        report(ctx, rep, tpath, "C19.", "the real Aggregator's result differs from Aggregator.tla (certificate presence, content or validity)")
    # system level: every QC/TC a real node assembles in multi-node runs (view changes, duplicates, drops) consists of distinct
    # authorities with quorum stake that had each sent this node a matching vote/timeout (monitors in TraceHS.tla)
    from .core import multi_runs, generate_behaviours, replay_local, PROPS
    # ... and under TLC-generated stimuli for one real node, among them votes forged in the node's own name (the harness judges every
    # delivered vote / timeout with the message's own verify(); only correctly signed ones count as received)
    spec = dict(PROPS["C03"], invs=[])
    behs = generate_behaviours(ctx, "C19", spec, 200 if q else 3000, 24 if q else 30)[: (200 if q else 3000)]
    replay_local(ctx, "C19", spec, hs, behs, "a")
    multi_runs(ctx, "C19", hs, "crash", ["n=4", "steps=500", "crash=2", "crash_at=30", "p_timer=0.05", "p_drop=0.05", "p_dup=0.1", "maxround=30"], 3 if q else 40)
    multi_runs(ctx, "C19", hs, "stake", ["n=5", "stakes=3,1,1,1,1", "steps=700", "crash=3", "crash_at=50", "p_timer=0.04", "p_dup=0.1", "maxround=25"], 2 if q else 30)
    return ctx.finish()


# ------------------------------------------------------------------------------------------------- C17 / C09 committee
def committee_cases(ctx, quick):
    rnd = random.Random(ctx.seed)
    cases = []
    for n in range(1, 5):
        for st in itertools.product(range(0, 4), repeat=n):
            if sum(st) >= 1:
                cases.append(list(st))
    if quick:
        rnd.shuffle(cases)
        cases = cases[:120]
    big = [2 ** k + d for k in range(2, 31) for d in (-2, -1, 0, 1, 2)] + [2 ** 31 - 1, 2 ** 31 - 2, 2 ** 31 - 3, 3 * 715827882, 3 * 715827882 + 1]
    for t in big:
        if t < 1 or t >= 2 ** 31:
            continue
        n = rnd.choice([1, 2, 3, 4, 5, 7])
        cuts = sorted(rnd.randint(0, t) for _ in range(n - 1))
        parts = [b - a for a, b in zip([0] + cuts, cuts + [t])]
        if rnd.random() < 0.3:
            parts = [t] + [0] * (n - 1)       # single dominant member, zero-stake members
        cases.append(parts)
    for _ in range(60 if quick else 600):
        n = rnd.randint(1, 7)
        cases.append([rnd.choice([0, 1, 1, 2, 3, 5, 100, 10 ** 6]) for _ in range(n)])
    cases = [c for c in cases if 1 <= sum(c) < 2 ** 31]
    return cases


def committee_part(ctx, hs, prefix):
    q = ctx.quick()
    cfg = ctx.path("committee.cfg")
    open(cfg, "w").write("CONSTANTS\n MaxN = %d\n MaxStake = %d\n MaxTotal = %d\n" % ((4, 3, 9) if q else (5, 4, 14)))
    r = model_job(ctx, "Committee.tla: quorum intersection over every stake distribution, rotation", "Committee.tla", cfg, True,
                  "MaxN/MaxStake/MaxTotal = %s" % ("4/3/9" if q else "5/4/14"), workers=4, timeout=900)
    if "Assumption" in r["out"] and "is false" in r["out"]:
        ctx.violation("Committee.tla: an ASSUME (quorum intersection / rotation) is false", "model", {"tlc_output_tail": r["out"][-4000:]})
    ctx.states += 1
    ctx.transitions += 1
    cases = committee_cases(ctx, q)
    cpath = ctx.path("committee-cases.ndjson")
    open(cpath, "w").write("\n".join(json.dumps({"stakes": c}) for c in cases) + "\n")
    tpath = ctx.path("committee-trace.ndjson")
    st = run_harness(ctx, hs, ["committee", "in=" + cpath, "out=" + tpath, "seed=%d" % ctx.seed])
    ctx.log("committee cases: %s" % st)
    rep = validate_trace(ctx, tpath, "committee", module="TraceCommittee.tla",
                         base_constants={"MaxN": "1", "MaxStake": "1", "MaxTotal": "1"})
    ctx.traces += 1
    ctx.evaluations += st["cases"]
    for c in cases:
        ctx.distinct.add(tuple(c))
    if not ctx.samples:
        ctx.samples = [{"stakes": c} for c in cases[:3] + cases[-3:]]
    report(ctx, rep, tpath, prefix, "a value computed by the real Committee / LeaderElector contradicts Committee.tla")
    return rep


def tlapm_proofs(ctx):
    d = ctx.path("tlapm")
    os.makedirs(d, exist_ok=True)
    shutil.copy2(os.path.join(SPEC, "CommitteeProofs.tla"), d)
    t = time.time()
    try:
        p = subprocess.run(["timeout", "300", "tlapm", "--threads", "4", "--cleanfp", "CommitteeProofs.tla"], cwd=d, stdout=subprocess.PIPE,
                           stderr=subprocess.STDOUT, text=True)
    except FileNotFoundError:
        raise ToolError("tlapm not found")
    m = re.search(r"All (\d+) obligations? proved", p.stdout)
    ctx.extra["tlaps"] = {"module": "CommitteeProofs.tla", "obligations": int(m.group(1)) if m else 0, "all_proved": bool(m),
                          "wall_s": round(time.time() - t, 1), "theorems": ["QuorumArith", "SameValue"]}
    ctx.log("tlapm: %s" % (m.group(0) if m else "NOT all proved"))
    if not m:
        sys.stdout.write(p.stdout[-2000:])
        raise ToolError("tlapm did not prove CommitteeProofs.tla")


def run_c17(ctx):
    ctx.rule = ("cases are committees (stake vectors): every vector with n<=4, stakes<=3; totals around every power of two up to 2^31-1 split over 1..7 "
                "members (including single-dominant and zero-stake members); seeded random vectors; distinct = distinct stake vectors; all are non-trivial "
                "(each is evaluated by both crates' Committee types built in shuffled insertion orders)")
    ctx.assumptions = ["total stake < 2^31 (the property's own bound)", "TLC integers are 32-bit: thresholds are compared with n - (n-1) div 3, proved equal to 2n div 3 + 1 by tlapm"]
    hs = build_harness(ctx)
    tlapm_proofs(ctx)
    committee_part(ctx, hs, "C17.")
    return ctx.finish()


# ------------------------------------------------------------------------------------------------- C16
def run_c16(ctx):
    ctx.rule = ("cases are command sequences (write / read / notify-read from several handles on overlapping keys, drain points, reopen) generated by TLC "
                "from Store.tla and executed on the real store::Store (RocksDB) with the enqueue order controlled by first-polling each call; "
                "distinct = distinct command sequences; non-trivial = contains at least one read or notify-read whose answer depends on a write")
    ctx.assumptions = ["commands reach the store in the order the calls are first polled (one runtime thread); the multi-threaded case is the same FIFO channel",
                       "exhaustive: 1-2 handles, 2 keys, 2 values, <= 5 commands; generated: 3 handles, 3 keys, 3 values, 12-20 commands"]
    hs = build_harness(ctx)
    q = ctx.quick()
    base = dict(Handles="{1}", Keys="{1,2}", Vals="{1,2}", MaxOps="5", LoseWake="FALSE")
    invs = ["ReadSeesLatest", "WritesInOrder", "NotifyNeverMisses", "ObligationsOnlyForMissing"]
    cfg = write_cfg(ctx, "store-x.cfg", "Spec", base, invariants=invs)
    r = model_job(ctx, "Store.tla exhaustive", "Store.tla", cfg, True, json.dumps(base), workers=6, timeout=600)
    if r["violated"]:
        ctx.violation("Store.tla violates %s" % r["violated"], "model", {"tlc_output_tail": r["out"][-4000:]})
    live = dict(base, MaxOps="3")
    cfg = write_cfg(ctx, "store-live.cfg", "FairSpec", live, properties=["AllApplied"])
    r = model_job(ctx, "Store.tla liveness (every command applied) under weak fairness", "Store.tla", cfg, True, json.dumps(live), workers=4, timeout=600)
    if r["violated"]:
        ctx.violation("Store.tla violates AllApplied", "model", {"tlc_output_tail": r["out"][-4000:]})
    # non-vacuity: the same invariants reject a store that forgets to wake waiters
    lw = dict(base, LoseWake="TRUE")
    cfg = write_cfg(ctx, "store-losewake.cfg", "Spec", lw, invariants=invs)
    r = tlc(ctx, "Store.tla", cfg, workers=4, timeout=300, name="store-losewake")
    ctx.extra["attack_model_LoseWake_rejected"] = bool(r["violated"])
    if not r["violated"]:
        raise ToolError("vacuity guard: the LoseWake attack model was not rejected by the invariants")
    sims = [("a", dict(Handles="{1,2,3}", Keys="{1,2,3}", Vals="{1,2,3}", MaxOps="14", LoseWake="FALSE", Depth="40"), 300 if q else 3000)]
    if not q:
        sims.append(("b", dict(Handles="{1,2}", Keys="{1,2}", Vals="{1,2,3}", MaxOps="24", LoseWake="FALSE", Depth="60"), 3000))
    for name, c, num in sims:
        cfg = write_cfg(ctx, "storesim-%s.cfg" % name, "GSpec", c, invariants=["EmitBeh"], constraints=["StopAtDepth"])
        r = model_job(ctx, "Store behaviour generation " + name, "MC_Store.tla", cfg, False, json.dumps(c), workers=4, simulate=num,
                      depth=80, timeout=300)
        behs = behaviours_from(r["out"])[: (500 if q else 6000)]
        if not behs:
            raise ToolError("no store behaviours generated")
        if not ctx.samples:
            ctx.samples = [[{k: v for k, v in o.items() if k not in ("resp", "db")} for o in json.loads(b)] for b in behs[:2]]
        bpath = ctx.path("storebeh-%s.ndjson" % name)
        # the harness needs only the commands; predicted responses stay inside TLC
        lines = [json.dumps([{k: v for k, v in o.items() if k not in ("resp", "db")} for o in json.loads(b)]) for b in behs]
        # backlogs (behaviours of Store.tla written down directly: the generator does not build long queues): more commands than the
        # store's channel holds are issued without letting the store run, then a read -- it must see the last write
        for nb in (160, 230):
            lines.append(json.dumps([{"op": "write", "h": i % 3, "key": 1 + (i % 2), "val": 1 + (i % 3)} for i in range(nb)]
                                    + [{"op": "read", "h": 0, "key": 1}, {"op": "read", "h": 1, "key": 2}, {"op": "notify", "h": 2, "key": 3},
                                       {"op": "write", "h": 0, "key": 3, "val": 2}, {"op": "drain"}]))
        open(bpath, "w").write("\n".join(lines) + "\n")
        tpath = ctx.path("storetrace-%s.ndjson" % name)
        st = run_harness(ctx, hs, ["store", "in=" + bpath, "out=" + tpath, "tag=%d" % os.getpid()])
        ctx.log("store %s: %s" % (name, st))
        tc = {k: v for k, v in c.items() if k != "Depth"}
        tc["MaxOps"] = "1000"
        tc["Keys"] = "{1,2,3}"
        rep = validate_trace(ctx, tpath, "store-" + name, module="TraceStore.tla", base_constants=tc, invariants=["SpecInvs"])
        ctx.traces += st["behaviours"]
        ctx.evaluations += st["ops"]
        for b in behs:
            ops = [o["op"] for o in json.loads(b)]
            if ("read" in ops or "notify" in ops) and "write" in ops:
                ctx.distinct.add(hash(b))
        report(ctx, rep, tpath, "C16.", "the real Store answered differently from Store.tla")
    return ctx.finish()


def run(ctx):
    return {"C19": run_c19, "C17": run_c17, "C16": run_c16}[ctx.prop](ctx)
