---- MODULE ATK ----
(* TLC-validated attack script: every step must be a legal step of HSC under the given Weaken *)
EXTENDS HSC
VARIABLE i
TC(r, h) == [round |-> r, hqr |-> h]
Script == <<
  [a |-> "BP", r |-> 1, v |-> 0, p |-> G, tc |-> NoTC],
  [a |-> "BP", r |-> 1, v |-> 1, p |-> G, tc |-> NoTC],
  [a |-> "D",  S |-> {2}, b |-> <<1,0>>],
  [a |-> "D",  S |-> {3}, b |-> <<1,1>>],
  [a |-> "QC", S |-> {2}, b |-> <<1,0>>],
  [a |-> "HP", n |-> 2, tc |-> NoTC],
  [a |-> "D",  S |-> {2}, b |-> <<2,0>>],
  [a |-> "BP", r |-> 5, v |-> 1, p |-> <<2,0>>, tc |-> NoTC],
  [a |-> "D",  S |-> {2}, b |-> <<5,1>>],
  [a |-> "QC", S |-> {3}, b |-> <<1,1>>],
  [a |-> "TO", S |-> {3}],
  [a |-> "TC", S |-> {3}, r |-> 2],
  [a |-> "HP", n |-> 3, tc |-> TC(2, 1)],
  [a |-> "D",  S |-> {3}, b |-> <<3,0>>],
  [a |-> "QC", S |-> {0}, b |-> <<3,0>>],
  [a |-> "HP", n |-> 0, tc |-> NoTC],
  [a |-> "D",  S |-> {3}, b |-> <<4,0>>],
  [a |-> "BP", r |-> 5, v |-> 0, p |-> <<4,0>>, tc |-> NoTC],
  [a |-> "D",  S |-> {3}, b |-> <<5,0>>] >>
Step(e) ==
   CASE e.a = "BP" -> ByzProposeP(e.r, e.v, e.p, e.tc)
     [] e.a = "HP" -> HonestProposeP(e.n, e.tc)
     [] e.a = "D"  -> DeliverSet(e.S, e.b)
     [] e.a = "QC" -> LearnQCSet(e.S, e.b)
     [] e.a = "TO" -> TimeoutSet(e.S)
     [] e.a = "TC" -> LearnTCSetP(e.S, e.r)
AInit == Init /\ i = 1
ANext == i <= Len(Script) /\ Step(Script[i]) /\ i' = i + 1
ASpec == AInit /\ [][ANext]_<<vars, i>>
\* verdicts
Blocked == IF i <= Len(Script) THEN Print(<<"BLOCKED at step", i, Script[i]>>, TRUE) ELSE Print(<<"SCRIPT COMPLETED; agreement holds =", Agreement>>, TRUE)
Done == TLCGet("queue") > 0 \/ TRUE
====
