SPECIFICATION ASpec
CONSTANTS N = 4
 Byz = {1}
 MaxRound = 6
 Q = 3
 Weaken = "none"
 MaxTimeouts = 2
INVARIANT Agreement
CHECK_DEADLOCK TRUE
