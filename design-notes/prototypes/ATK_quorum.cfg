SPECIFICATION ASpec
CONSTANTS N = 4
 Byz = {1}
 MaxRound = 6
 Q = 3
 Weaken = "quorum"
 MaxTimeouts = 2
INVARIANT Agreement
CHECK_DEADLOCK TRUE
