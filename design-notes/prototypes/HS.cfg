SPECIFICATION Spec
CONSTANTS N = 4
 Byz = {3}
 MaxRound = 3
 Q = 3
CONSTRAINT Bound
INVARIANT Agreement
INVARIANT ChainOrder
INVARIANT OneVotePerRound
INVARIANT OneProposalPerRound
CHECK_DEADLOCK FALSE
