---- MODULE HS ----
(* PROTOTYPE for sizing only: 2-chain HotStuff core as implemented in consensus/src/core.rs *)
EXTENDS Integers, Sequences, FiniteSets, TLC

CONSTANTS N,          \* number of authorities, ids 0..N-1 in sorted-key order
          Byz,        \* set of Byzantine ids
          MaxRound,
          Q           \* quorum (stake 1 each in the prototype)

Node   == 0..(N-1)
Honest == Node \ Byz
Leader(r) == r % N

\* Block core identity (what Block::digest binds): <<round, author, variant, parentId>>
Genesis == <<0, -1, 0, <<>>>>
RoundOf(b)  == b[1]
AuthorOf(b) == b[2]
ParentOf(b) == b[4]
NoTC == [round |-> -1, hqr |-> -1]

VARIABLES round, lastVoted, lastCommitted, highQC, stored, parked, vAgg, tAgg, makeQ, loop,
          delivered, proposals, votes, timeouts, tcs
vars == <<round, lastVoted, lastCommitted, highQC, stored, parked, vAgg, tAgg, makeQ, loop,
          delivered, proposals, votes, timeouts, tcs>>

Max(a, b) == IF a >= b THEN a ELSE b
SetMax(S) == CHOOSE x \in S : \A y \in S : y <= x

\* ---- what certificates exist (adversary sees every signature ever produced) ----
Voters(b) == {v.voter : v \in {w \in votes : w.blk = b}}
Certified(b) == b = Genesis \/ Cardinality(Voters(b) \cup Byz) >= Q
\* all block ids known to the system
KnownBlocks == {p.blk : p \in proposals} \cup {Genesis}

HonTO(r) == {t \in timeouts : t.round = r}
\* a TC [round, hqr] is constructible iff some honest subset S plus Byz reaches quorum and hqr >= max hqr of S
ConstructibleTC(tc) ==
   /\ tc.round >= 1
   /\ \E S \in SUBSET HonTO(tc.round) :
        /\ Cardinality({t.author : t \in S} \cup Byz) >= Q
        /\ \A t \in S : t.hqr <= tc.hqr

Init ==
   /\ round = [n \in Honest |-> 1]
   /\ lastVoted = [n \in Honest |-> 0]
   /\ lastCommitted = [n \in Honest |-> 0]
   /\ highQC = [n \in Honest |-> Genesis]
   /\ stored = [n \in Honest |-> {}]
   /\ parked = [n \in Honest |-> {}]
   /\ vAgg = [n \in Honest |-> {}]
   /\ tAgg = [n \in Honest |-> {}]
   /\ makeQ = [n \in Honest |-> IF Leader(1) = n THEN <<[round |-> 1, qc |-> Genesis, tc |-> NoTC]>> ELSE <<>>]
   /\ loop = [n \in Honest |-> {}]
   /\ delivered = [n \in Honest |-> <<>>]
   /\ proposals = {} /\ votes = {} /\ timeouts = {} /\ tcs = {}

\* ---- pure helpers returning the new local state pieces ----
AdvRound(cur, r) == IF r < cur THEN cur ELSE r + 1

\* chain from b back to (exclusive) round lc, oldest first  (FIXED commit semantics)
RECURSIVE ChainDown(_, _)
ChainDown(b, lc) == IF RoundOf(b) <= lc \/ b = Genesis THEN <<>> ELSE Append(ChainDown(ParentOf(b), lc), b)

\* --- ProcessBlock on node n for proposal p (parent known to be stored / genesis) ---
\* returns a record of next local values; voting and inline self-vote handled by caller
CanVote(n, p, rnd, lv) ==
   LET b == p.blk  par == ParentOf(b) IN
   /\ RoundOf(b) = rnd
   /\ RoundOf(b) > lv
   /\ \/ RoundOf(par) + 1 = RoundOf(b)
      \/ /\ p.tc # NoTC /\ p.tc.round + 1 = RoundOf(b) /\ RoundOf(par) >= p.tc.hqr

\* add vote v=(blk,voter) at node n with current round rnd/hq; yields <<vAgg', rnd', hq', mk>>
\* mk = sequence of Make requests appended
VoteStep(n, blk, voter, rnd, hq, agg) ==
   IF RoundOf(blk) < rnd \/ <<blk, voter>> \in agg THEN [agg |-> agg, rnd |-> rnd, hq |-> hq, mk |-> <<>>]
   ELSE LET agg1 == agg \cup {<<blk, voter>>}
            cnt  == Cardinality({x \in agg1 : x[1] = blk})
        IN IF cnt = Q   \* weight reaches quorum exactly once (stake 1)
           THEN LET rnd1 == AdvRound(rnd, RoundOf(blk))
                    hq1  == IF RoundOf(blk) > RoundOf(hq) THEN blk ELSE hq
                    agg2 == {x \in agg1 : RoundOf(x[1]) >= rnd1}
                IN [agg |-> agg2, rnd |-> rnd1, hq |-> hq1,
                    mk |-> IF Leader(rnd1) = n THEN <<[round |-> rnd1, qc |-> hq1, tc |-> NoTC]>> ELSE <<>>]
           ELSE [agg |-> agg1, rnd |-> rnd, hq |-> hq, mk |-> <<>>]

ProcessBlock(n, p, rnd0, hq0) ==
   LET b == p.blk  b1 == ParentOf(b) IN
   IF ~(b1 = Genesis \/ b1 \in stored[n])
   THEN /\ parked' = [parked EXCEPT ![n] = @ \cup {p}]
        /\ round' = [round EXCEPT ![n] = rnd0]
        /\ highQC' = [highQC EXCEPT ![n] = hq0]
        /\ UNCHANGED <<lastVoted, lastCommitted, stored, vAgg, makeQ, delivered, votes>>
   ELSE
     LET b0 == IF b1 = Genesis THEN Genesis ELSE ParentOf(b1)
         doCommit == RoundOf(b0) + 1 = RoundOf(b1) /\ lastCommitted[n] < RoundOf(b0)
         vote == CanVote(n, p, rnd0, lastVoted[n])
         self == Leader(rnd0 + 1) = n
         aggC == {x \in vAgg[n] : RoundOf(x[1]) >= rnd0}
         vs == IF vote /\ self THEN VoteStep(n, b, n, rnd0, hq0, aggC)
               ELSE [agg |-> aggC, rnd |-> rnd0, hq |-> hq0, mk |-> <<>>]
     IN
     /\ stored' = [stored EXCEPT ![n] = @ \cup {b}]
     /\ parked' = [parked EXCEPT ![n] = @ \ {p}]
     /\ IF doCommit
        THEN /\ delivered' = [delivered EXCEPT ![n] = @ \o ChainDown(b0, lastCommitted[n])]
             /\ lastCommitted' = [lastCommitted EXCEPT ![n] = RoundOf(b0)]
        ELSE UNCHANGED <<delivered, lastCommitted>>
     /\ lastVoted' = [lastVoted EXCEPT ![n] = IF vote THEN RoundOf(b) ELSE @]
     /\ votes' = IF vote THEN votes \cup {[blk |-> b, voter |-> n]} ELSE votes
     /\ round' = [round EXCEPT ![n] = vs.rnd]
     /\ highQC' = [highQC EXCEPT ![n] = vs.hq]
     /\ vAgg' = [vAgg EXCEPT ![n] = vs.agg]
     /\ makeQ' = [makeQ EXCEPT ![n] = @ \o vs.mk]

\* ---- proposals the adversary can fabricate right now ----
ByzProposals ==
   UNION {{[blk |-> <<r, Leader(r), v, par>>, tc |-> tc] :
       v \in {0, 1}, par \in {k \in KnownBlocks : Certified(k)},
       tc \in {NoTC} \cup {[round |-> r - 1, hqr |-> h] : h \in 0..MaxRound}} : r \in 1..MaxRound}

HandleProposal(n, p) ==
   LET b == p.blk  par == ParentOf(b)
       rnd1 == AdvRound(round[n], RoundOf(par))
       hq1  == IF RoundOf(par) > RoundOf(highQC[n]) THEN par ELSE highQC[n]
       rnd2 == IF p.tc # NoTC THEN AdvRound(rnd1, p.tc.round) ELSE rnd1
   IN /\ AuthorOf(b) = Leader(RoundOf(b))
      /\ ProcessBlock(n, p, rnd2, hq1)
      /\ tAgg' = [tAgg EXCEPT ![n] = {t \in @ : t.round >= rnd2}]
      /\ UNCHANGED <<loop, timeouts, tcs>>

DeliverHonestProposal(n) == \E p \in proposals : AuthorOf(p.blk) # n /\ HandleProposal(n, p) /\ UNCHANGED proposals
DeliverByzProposal(n) == \E p \in ByzProposals :
      /\ AuthorOf(p.blk) \in Byz /\ RoundOf(ParentOf(p.blk)) < RoundOf(p.blk)
      /\ (p.tc = NoTC \/ ConstructibleTC(p.tc))
      /\ HandleProposal(n, p) /\ proposals' = proposals \cup {p}

Loopback(n) == \E p \in loop[n] :
      /\ ProcessBlock(n, p, round[n], highQC[n])
      /\ loop' = [loop EXCEPT ![n] = @ \ {p}]
      /\ UNCHANGED <<tAgg, proposals, timeouts, tcs>>

Unpark(n) == \E p \in parked[n] :
      /\ ParentOf(p.blk) \in stored[n]
      /\ ProcessBlock(n, p, round[n], highQC[n])
      /\ UNCHANGED <<tAgg, loop, proposals, timeouts, tcs>>

ProposerMake(n) ==
   /\ makeQ[n] # <<>>
   /\ LET m == Head(makeQ[n])
          p == [blk |-> <<m.round, n, 0, m.qc>>, tc |-> m.tc]
      IN /\ proposals' = proposals \cup {p}
         /\ loop' = [loop EXCEPT ![n] = @ \cup {p}]
   /\ makeQ' = [makeQ EXCEPT ![n] = Tail(@)]
   /\ UNCHANGED <<round, lastVoted, lastCommitted, highQC, stored, parked, vAgg, tAgg, delivered, votes, timeouts, tcs>>

HandleVote(n) == \E b \in KnownBlocks \ {Genesis}, w \in Node :
      /\ \/ [blk |-> b, voter |-> w] \in votes /\ (Leader(RoundOf(b) + 1) = n \/ Leader(RoundOf(b) + 1) \in Byz)
         \/ w \in Byz
      /\ w # n
      /\ RoundOf(b) >= round[n] /\ <<b, w>> \notin vAgg[n]
      /\ LET vs == VoteStep(n, b, w, round[n], highQC[n], vAgg[n]) IN
           /\ round' = [round EXCEPT ![n] = vs.rnd]
           /\ highQC' = [highQC EXCEPT ![n] = vs.hq]
           /\ vAgg' = [vAgg EXCEPT ![n] = vs.agg]
           /\ makeQ' = [makeQ EXCEPT ![n] = @ \o vs.mk]
           /\ tAgg' = [tAgg EXCEPT ![n] = {t \in @ : t.round >= vs.rnd}]
      /\ UNCHANGED <<lastVoted, lastCommitted, stored, parked, loop, delivered, proposals, votes, timeouts, tcs>>

\* timeout t = [author, round, hqr, qc] handled at n (own or received)
TimeoutStep(n, t, lv) ==
   LET rnd1 == AdvRound(round[n], RoundOf(t.qc))
       hq1  == IF RoundOf(t.qc) > RoundOf(highQC[n]) THEN t.qc ELSE highQC[n]
       agg0 == {x \in tAgg[n] : x.round >= rnd1}
       dup  == \E x \in agg0 : x.round = t.round /\ x.author = t.author
       agg1 == IF dup THEN agg0 ELSE agg0 \cup {[author |-> t.author, round |-> t.round, hqr |-> t.hqr]}
       mine == {x \in agg1 : x.round = t.round}
       made == ~dup /\ Cardinality(mine) = Q
       tc   == [round |-> t.round, hqr |-> SetMax({x.hqr : x \in mine})]
       rnd2 == IF made THEN AdvRound(rnd1, t.round) ELSE rnd1
   IN /\ round' = [round EXCEPT ![n] = rnd2]
      /\ highQC' = [highQC EXCEPT ![n] = hq1]
      /\ tAgg' = [tAgg EXCEPT ![n] = {x \in agg1 : x.round >= rnd2}]
      /\ vAgg' = [vAgg EXCEPT ![n] = {x \in @ : RoundOf(x[1]) >= rnd2}]
      /\ tcs' = IF made THEN tcs \cup {tc} ELSE tcs
      /\ makeQ' = [makeQ EXCEPT ![n] = IF made /\ Leader(rnd2) = n
                                        THEN @ \o <<[round |-> rnd2, qc |-> hq1, tc |-> tc]>> ELSE @]
      /\ lastVoted' = [lastVoted EXCEPT ![n] = lv]

LocalTimeout(n) ==
   /\ round[n] < MaxRound
   /\ LET t == [author |-> n, round |-> round[n], hqr |-> RoundOf(highQC[n]), qc |-> highQC[n]] IN
        /\ timeouts' = timeouts \cup {t}
        /\ TimeoutStep(n, t, Max(lastVoted[n], round[n]))
   /\ UNCHANGED <<lastCommitted, stored, parked, loop, delivered, proposals, votes>>

HandleTimeout(n) ==
   /\ \E t \in timeouts \cup
            {[author |-> a, round |-> r, hqr |-> RoundOf(k), qc |-> k] :
                 a \in Byz, r \in 1..MaxRound, k \in {k \in KnownBlocks : Certified(k)}} :
        /\ t.author # n /\ t.round >= round[n]
        /\ TimeoutStep(n, t, lastVoted[n])
   /\ UNCHANGED <<lastCommitted, stored, parked, loop, delivered, proposals, votes, timeouts>>

HandleTC(n) == \E tc \in tcs \cup {[round |-> r, hqr |-> h] : r \in 1..MaxRound, h \in 0..MaxRound} :
   /\ (tc \in tcs \/ ConstructibleTC(tc))
   /\ tc.round >= round[n]
   /\ LET rnd1 == AdvRound(round[n], tc.round) IN
        /\ round' = [round EXCEPT ![n] = rnd1]
        /\ vAgg' = [vAgg EXCEPT ![n] = {x \in @ : RoundOf(x[1]) >= rnd1}]
        /\ tAgg' = [tAgg EXCEPT ![n] = {x \in @ : x.round >= rnd1}]
        /\ makeQ' = [makeQ EXCEPT ![n] = IF Leader(rnd1) = n THEN @ \o <<[round |-> rnd1, qc |-> highQC[n], tc |-> tc]>> ELSE @]
   /\ UNCHANGED <<lastVoted, lastCommitted, highQC, stored, parked, loop, delivered, proposals, votes, timeouts, tcs>>

Next == \E n \in Honest :
   \/ DeliverHonestProposal(n) \/ DeliverByzProposal(n) \/ Loopback(n) \/ Unpark(n)
   \/ ProposerMake(n) \/ HandleVote(n) \/ LocalTimeout(n) \/ HandleTimeout(n) \/ HandleTC(n)

Spec == Init /\ [][Next]_vars

Bound == \A n \in Honest : round[n] <= MaxRound

\* ---------------- properties ----------------
RECURSIVE Ancestor(_, _)
Ancestor(a, b) == a = b \/ (b # Genesis /\ Ancestor(a, ParentOf(b)))   \* a is ancestor-or-equal of b

Agreement == \A n, m \in Honest : \A i \in 1..Len(delivered[n]), j \in 1..Len(delivered[m]) :
     Ancestor(delivered[n][i], delivered[m][j]) \/ Ancestor(delivered[m][j], delivered[n][i])

ChainOrder == \A n \in Honest : \A i \in 1..Len(delivered[n]) :
     /\ delivered[n][i] # Genesis
     /\ ParentOf(delivered[n][i]) = (IF i = 1 THEN Genesis ELSE delivered[n][i-1])

OneVotePerRound == \A v, w \in votes : (v.voter = w.voter /\ v.voter \in Honest /\ RoundOf(v.blk) = RoundOf(w.blk)) => v.blk = w.blk
NoVoteAfterTimeout == TRUE
OneProposalPerRound == \A p, q \in proposals : (AuthorOf(p.blk) \in Honest /\ p.blk[1] = q.blk[1] /\ p.blk[2] = q.blk[2]) => p.blk = q.blk
====
