---- MODULE HSC ----
(* PROTOTYPE: reduced global model for attack finding. Subset of the behaviours of the full model:
   proposer/loopback atomic, QC/TC formation atomic, every honest node has every block (sync assumed). *)
EXTENDS Integers, Sequences, FiniteSets, TLC
CONSTANTS N, Byz, MaxRound, Q, Weaken, MaxTimeouts

Node   == 0..(N-1)
Honest == Node \ Byz
Leader(r) == r % N
G == <<0, 0>>                      \* genesis; block id = <<round, variant>>
R(b) == b[1]
NoTC == [round |-> -1, hqr |-> -1]

VARIABLES par,        \* created blocks -> parent id
          tcOf,       \* created blocks -> tc attached to the (first) proposal
          round, lastVoted, lastCommitted, highQC, committed,
          votes, timeouts, seen   \* seen[n] = proposals already processed by n
vars == <<par, tcOf, round, lastVoted, lastCommitted, highQC, committed, votes, timeouts, seen>>

Blocks == DOMAIN par
Max(a, b) == IF a >= b THEN a ELSE b
Adv(cur, r) == IF r < cur THEN cur ELSE r + 1
QQ == IF Weaken = "quorum" THEN Q - 1 ELSE Q

Voters(b) == {v.voter : v \in {w \in votes : w.blk = b}}
Certified(b) == b = G \/ Cardinality(Voters(b) \cup Byz) >= QQ
RECURSIVE Anc(_, _)
Anc(a, b) == a = b \/ (b # G /\ R(b) > R(a) /\ Anc(a, par[b]))

ConstructibleTC(tc) ==
   \E S \in SUBSET {t \in timeouts : t.round = tc.round} :
        /\ Cardinality({t.author : t \in S} \cup Byz) >= QQ
        /\ \A t \in S : t.hqr <= tc.hqr

Init ==
   /\ par = (G :> G) /\ tcOf = (G :> NoTC)
   /\ round = [n \in Honest |-> 1] /\ lastVoted = [n \in Honest |-> 0]
   /\ lastCommitted = [n \in Honest |-> 0] /\ highQC = [n \in Honest |-> G]
   /\ committed = [n \in Honest |-> {}]
   /\ votes = {} /\ timeouts = {} /\ seen = [n \in Honest |-> {}]

\* a leader (honest or Byzantine) creates a block
HonestPropose(n) ==
   LET r == round[n]  b == <<r, 0>> IN
   /\ Leader(r) = n /\ b \notin Blocks /\ r <= MaxRound
   /\ \E tc \in {NoTC} \cup {[round |-> r - 1, hqr |-> h] : h \in 0..MaxRound} :
        /\ (tc # NoTC => ConstructibleTC(tc) /\ r >= 2)
        \* honest leader proposes on entering the round: needs QC(r-1) = highQC or a TC(r-1)
        /\ (tc = NoTC => R(highQC[n]) = r - 1)
        /\ par' = par @@ (b :> highQC[n]) /\ tcOf' = tcOf @@ (b :> tc)
   /\ UNCHANGED <<round, lastVoted, lastCommitted, highQC, committed, votes, timeouts, seen>>

ByzPropose ==
   \E r \in 1..MaxRound, v \in {0, 1}, p \in Blocks :
     LET b == <<r, v>> IN
     /\ Leader(r) \in Byz /\ b \notin Blocks /\ Certified(p) /\ R(p) < r
     /\ \E tc \in {NoTC} \cup {[round |-> r - 1, hqr |-> h] : h \in 0..MaxRound} :
          /\ (tc # NoTC => r >= 2 /\ ConstructibleTC(tc))
          /\ par' = par @@ (b :> p) /\ tcOf' = tcOf @@ (b :> tc)
     /\ UNCHANGED <<round, lastVoted, lastCommitted, highQC, committed, votes, timeouts, seen>>

CanVote(n, b, rnd, lv) ==
   LET p == par[b]  tc == tcOf[b] IN
   /\ R(b) = rnd
   /\ (Weaken = "vote_once" \/ R(b) > lv)
   /\ \/ R(p) + 1 = R(b)
      \/ Weaken = "rule2"
      \/ /\ tc # NoTC /\ tc.round + 1 = R(b)
         /\ (Weaken = "tc_hqr" \/ R(p) >= tc.hqr)

\* ---- per-node step functions (return the node's new local record) ----
Loc(n) == [r |-> round[n], lv |-> lastVoted[n], lc |-> lastCommitted[n], hq |-> highQC[n], cm |-> committed[n], vote |-> FALSE]

DStep(n, b) ==
   LET p == par[b]  tc == tcOf[b]
       r1 == Adv(round[n], R(p))
       hq == IF R(p) > R(highQC[n]) THEN p ELSE highQC[n]
       r2 == IF tc # NoTC THEN Adv(r1, tc.round) ELSE r1
       b0 == par[p]
       doCommit == p # G /\ (Weaken = "commit" \/ R(b0) + 1 = R(p)) /\ R(b0) > lastCommitted[n]
       vote == CanVote(n, b, r2, lastVoted[n])
   IN [r |-> r2, hq |-> hq,
       lc |-> IF doCommit THEN R(b0) ELSE lastCommitted[n],
       cm |-> IF doCommit THEN committed[n] \cup {b0} ELSE committed[n],
       lv |-> IF vote THEN Max(lastVoted[n], R(b)) ELSE lastVoted[n],
       vote |-> vote]

Apply(S, F(_)) ==
   /\ round' = [n \in Honest |-> IF n \in S THEN F(n).r ELSE round[n]]
   /\ lastVoted' = [n \in Honest |-> IF n \in S THEN F(n).lv ELSE lastVoted[n]]
   /\ lastCommitted' = [n \in Honest |-> IF n \in S THEN F(n).lc ELSE lastCommitted[n]]
   /\ highQC' = [n \in Honest |-> IF n \in S THEN F(n).hq ELSE highQC[n]]
   /\ committed' = [n \in Honest |-> IF n \in S THEN F(n).cm ELSE committed[n]]

DeliverSet(S, b) ==
   /\ b \in Blocks \ {G} /\ \A n \in S : b \notin seen[n]
   /\ seen' = [n \in Honest |-> IF n \in S THEN seen[n] \cup {b} ELSE seen[n]]
   /\ LET F(n) == DStep(n, b) IN
        /\ Apply(S, F)
        /\ votes' = votes \cup {[blk |-> b, voter |-> n] : n \in {m \in S : F(m).vote}}
   /\ UNCHANGED <<par, tcOf, timeouts>>

LearnQCSet(S, b) ==
   /\ b \in Blocks \ {G} /\ Certified(b) /\ \A n \in S : R(b) >= round[n]
   /\ LET F(n) == [Loc(n) EXCEPT !.r = R(b) + 1, !.hq = IF R(b) > R(highQC[n]) THEN b ELSE highQC[n]] IN Apply(S, F)
   /\ UNCHANGED <<par, tcOf, votes, timeouts, seen>>

TimeoutSet(S) ==
   /\ \A n \in S : round[n] < MaxRound /\ Cardinality({t \in timeouts : t.author = n}) < MaxTimeouts
   /\ timeouts' = timeouts \cup {[author |-> n, round |-> round[n], hqr |-> R(highQC[n])] : n \in S}
   /\ LET F(n) == [Loc(n) EXCEPT !.lv = IF Weaken = "timeout_bump" THEN lastVoted[n] ELSE Max(lastVoted[n], round[n])] IN Apply(S, F)
   /\ UNCHANGED <<par, tcOf, votes, seen>>

LearnTCSet(S) == \E r \in 1..MaxRound :
   /\ \A n \in S : r >= round[n]
   /\ ConstructibleTC([round |-> r, hqr |-> MaxRound])
   /\ LET F(n) == [Loc(n) EXCEPT !.r = r + 1] IN Apply(S, F)
   /\ UNCHANGED <<par, tcOf, votes, timeouts, seen>>

Next == \/ ByzPropose
        \/ \E n \in Honest : HonestPropose(n)
        \/ \E S \in (SUBSET Honest) \ {{}} : \/ TimeoutSet(S) \/ LearnTCSet(S)
                                              \/ \E b \in Blocks : DeliverSet(S, b) \/ LearnQCSet(S, b)
Spec == Init /\ [][Next]_vars
Bound == \A n \in Honest : round[n] <= MaxRound

Agreement == \A n, m \in Honest : \A a \in committed[n], b \in committed[m] : Anc(a, b) \/ Anc(b, a)

ByzProposeP(r, v, p, tc) ==
     LET b == <<r, v>> IN
     /\ Leader(r) \in Byz /\ b \notin Blocks /\ p \in Blocks /\ Certified(p) /\ R(p) < r
     /\ (tc # NoTC => r >= 2 /\ tc.round = r - 1 /\ ConstructibleTC(tc))
     /\ par' = par @@ (b :> p) /\ tcOf' = tcOf @@ (b :> tc)
     /\ UNCHANGED <<round, lastVoted, lastCommitted, highQC, committed, votes, timeouts, seen>>
HonestProposeP(n, tc) ==
   LET r == round[n]  b == <<r, 0>> IN
   /\ Leader(r) = n /\ b \notin Blocks /\ r <= MaxRound
   /\ (tc # NoTC => tc.round = r - 1 /\ ConstructibleTC(tc) /\ r >= 2)
   /\ (tc = NoTC => R(highQC[n]) = r - 1)
   /\ par' = par @@ (b :> highQC[n]) /\ tcOf' = tcOf @@ (b :> tc)
   /\ UNCHANGED <<round, lastVoted, lastCommitted, highQC, committed, votes, timeouts, seen>>
LearnTCSetP(S, r) ==
   /\ \A n \in S : r >= round[n]
   /\ ConstructibleTC([round |-> r, hqr |-> MaxRound])
   /\ LET F(n) == [Loc(n) EXCEPT !.r = r + 1] IN Apply(S, F)
   /\ UNCHANGED <<par, tcOf, votes, timeouts, seen>>
====
