SPECIFICATION Spec
CONSTANTS N = 4
 Me = 1
 Variants = {0}
 MaxBlocksParked = 1
 MaxRound = 3
 Q = 3
 UseVotes = FALSE
 UseTimeouts = FALSE
CONSTRAINT Bound
VIEW core
ACTION_CONSTRAINT EmitEdge
INVARIANT ChainOrder
CHECK_DEADLOCK FALSE
