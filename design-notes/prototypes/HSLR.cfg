SPECIFICATION Spec
CONSTANTS N = 4
 Me = 1
 Depth = 8
 Variants = {0}
 MaxBlocksParked = 1
 MaxRound = 3
 Q = 3
 UseVotes = FALSE
 UseTimeouts = FALSE
CONSTRAINT Bound
INVARIANT Emit
CHECK_DEADLOCK FALSE
