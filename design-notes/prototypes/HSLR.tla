---- MODULE HSLR ----
(* PROTOTYPE for sizing: ONE honest node (Me) against an omnipotent environment, fixed block universe *)
EXTENDS Integers, Sequences, FiniteSets, TLC, Json
CONSTANTS Depth, Me, Variants, MaxBlocksParked, N, MaxRound, Q, UseVotes, UseTimeouts

Node   == 0..(N-1)
Leader(r) == r % N
Genesis == <<0, -1, 0, <<>>>>
RoundOf(b)  == b[1]
AuthorOf(b) == b[2]
ParentOf(b) == b[4]
NoTC == [round |-> -1, hqr |-> -1]

RECURSIVE BlocksUpTo(_)
BlocksUpTo(r) == IF r = 0 THEN {Genesis}
                 ELSE LET prev == BlocksUpTo(r - 1) IN
                      prev \cup {<<r, Leader(r), v, par>> : v \in Variants, par \in prev}
Universe == BlocksUpTo(MaxRound)
TCs == {NoTC} \cup {[round |-> r, hqr |-> h] : r \in 1..(MaxRound - 1), h \in 0..(MaxRound - 1)}
Others == Node \ {Me}

VARIABLES round, lastVoted, lastCommitted, highQC, stored, parked, vAgg, tAgg, makeQ, loop,
          delivered, myVotes, myTimeouts, myProposals, last, hist
vars == <<round, lastVoted, lastCommitted, highQC, stored, parked, vAgg, tAgg, makeQ, loop,
          delivered, myVotes, myTimeouts, myProposals, last, hist>>
core == <<round, lastVoted, lastCommitted, highQC, stored, parked, vAgg, tAgg, makeQ, loop,
          delivered, myVotes, myTimeouts, myProposals>>

Max(a, b) == IF a >= b THEN a ELSE b
SetMax(S) == CHOOSE x \in S : \A y \in S : y <= x
AdvRound(cur, r) == IF r < cur THEN cur ELSE r + 1

Init ==
   /\ round = 1 /\ lastVoted = 0 /\ lastCommitted = 0 /\ highQC = Genesis
   /\ stored = {} /\ parked = {} /\ vAgg = {} /\ tAgg = {}
   /\ makeQ = IF Leader(1) = Me THEN <<[round |-> 1, qc |-> Genesis, tc |-> NoTC]>> ELSE <<>>
   /\ loop = {} /\ delivered = <<>> /\ myVotes = {} /\ myTimeouts = {} /\ myProposals = {}
   /\ last = [a |-> "Init"] /\ hist = <<>>

RECURSIVE ChainDown(_, _)
ChainDown(b, lc) == IF RoundOf(b) <= lc \/ b = Genesis THEN <<>> ELSE Append(ChainDown(ParentOf(b), lc), b)

CanVote(p, rnd, lv) ==
   LET b == p.blk  par == ParentOf(b) IN
   /\ RoundOf(b) = rnd /\ RoundOf(b) > lv
   /\ \/ RoundOf(par) + 1 = RoundOf(b)
      \/ /\ p.tc # NoTC /\ p.tc.round + 1 = RoundOf(b) /\ RoundOf(par) >= p.tc.hqr

VoteStep(blk, voter, rnd, hq, agg) ==
   IF RoundOf(blk) < rnd \/ <<blk, voter>> \in agg THEN [agg |-> agg, rnd |-> rnd, hq |-> hq, mk |-> <<>>]
   ELSE LET agg1 == agg \cup {<<blk, voter>>}
            cnt  == Cardinality({x \in agg1 : x[1] = blk})
        IN IF cnt = Q
           THEN LET rnd1 == AdvRound(rnd, RoundOf(blk))
                    hq1  == IF RoundOf(blk) > RoundOf(hq) THEN blk ELSE hq
                    agg2 == {x \in agg1 : RoundOf(x[1]) >= rnd1}
                IN [agg |-> agg2, rnd |-> rnd1, hq |-> hq1,
                    mk |-> IF Leader(rnd1) = Me THEN <<[round |-> rnd1, qc |-> hq1, tc |-> NoTC]>> ELSE <<>>]
           ELSE [agg |-> agg1, rnd |-> rnd, hq |-> hq, mk |-> <<>>]

ProcessBlock(p, rnd0, hq0) ==
   LET b == p.blk  b1 == ParentOf(b) IN
   IF ~(b1 = Genesis \/ b1 \in stored)
   THEN /\ parked' = parked \cup {p}
        /\ round' = rnd0 /\ highQC' = hq0
        /\ vAgg' = {x \in vAgg : RoundOf(x[1]) >= rnd0}
        /\ UNCHANGED <<lastVoted, lastCommitted, stored, makeQ, delivered, myVotes>>
   ELSE
     LET b0 == IF b1 = Genesis THEN Genesis ELSE ParentOf(b1)
         doCommit == RoundOf(b0) + 1 = RoundOf(b1) /\ lastCommitted < RoundOf(b0)
         vote == CanVote(p, rnd0, lastVoted)
         self == Leader(rnd0 + 1) = Me
         aggC == {x \in vAgg : RoundOf(x[1]) >= rnd0}
         vs == IF vote /\ self THEN VoteStep(b, Me, rnd0, hq0, aggC)
               ELSE [agg |-> aggC, rnd |-> rnd0, hq |-> hq0, mk |-> <<>>]
     IN
     /\ stored' = stored \cup {b}
     /\ parked' = parked \ {p}
     /\ IF doCommit
        THEN /\ delivered' = delivered \o ChainDown(b0, lastCommitted)
             /\ lastCommitted' = RoundOf(b0)
        ELSE UNCHANGED <<delivered, lastCommitted>>
     /\ lastVoted' = IF vote THEN RoundOf(b) ELSE lastVoted
     /\ myVotes' = IF vote THEN myVotes \cup {p} ELSE myVotes
     /\ round' = vs.rnd /\ highQC' = vs.hq /\ vAgg' = vs.agg
     /\ makeQ' = makeQ \o vs.mk

RECURSIVE Ancestor(_, _)
Ancestor(a, b) == a = b \/ (b # Genesis /\ RoundOf(b) > RoundOf(a) /\ Ancestor(a, ParentOf(b)))
Cert(S) == {ParentOf(x) : x \in S}
\* assumption discharged by the global model: certified blocks never conflict with a certified consecutive 2-chain
EnvSafe(S) == LET C == Cert(S) IN
   /\ \A c, d \in C : RoundOf(c) = RoundOf(d) => c = d
   /\ \A b1 \in C : (b1 # Genesis /\ RoundOf(b1) = RoundOf(ParentOf(b1)) + 1) =>
         \A c \in C : RoundOf(c) >= RoundOf(ParentOf(b1)) => Ancestor(ParentOf(b1), c)
Shown == stored \cup {p.blk : p \in parked} \cup {p.blk : p \in loop}

EnvProposal == \E b \in Universe \ {Genesis}, tc \in TCs :
   LET p == [blk |-> b, tc |-> tc]
       par == ParentOf(b)
       rnd1 == AdvRound(round, RoundOf(par))
       hq1  == IF RoundOf(par) > RoundOf(highQC) THEN par ELSE highQC
       rnd2 == IF tc # NoTC THEN AdvRound(rnd1, tc.round) ELSE rnd1
   IN /\ AuthorOf(b) # Me
      /\ (tc = NoTC \/ tc.round + 1 = RoundOf(b))
      /\ p \notin parked /\ b \notin stored
      /\ EnvSafe(Shown \cup {b})
      /\ ProcessBlock(p, rnd2, hq1)
      /\ tAgg' = {t \in tAgg : t.round >= rnd2}
      /\ last' = [a |-> "EnvProposal", blk |-> b, tc |-> tc]
      /\ UNCHANGED <<loop, myTimeouts, myProposals>>

Loopback == \E p \in loop :
      /\ ProcessBlock(p, round, highQC)
      /\ loop' = loop \ {p}
      /\ last' = [a |-> "Loopback", blk |-> p.blk]
      /\ UNCHANGED <<tAgg, myTimeouts, myProposals>>

Unpark == \E p \in parked :
      /\ ParentOf(p.blk) \in stored
      /\ ProcessBlock(p, round, highQC)
      /\ last' = [a |-> "Unpark", blk |-> p.blk]
      /\ UNCHANGED <<tAgg, loop, myTimeouts, myProposals>>

ProposerMake ==
   /\ makeQ # <<>>
   /\ LET m == Head(makeQ)
          p == [blk |-> <<m.round, Me, 0, m.qc>>, tc |-> m.tc]
      IN /\ myProposals' = myProposals \cup {p}
         /\ loop' = loop \cup {p}
   /\ makeQ' = Tail(makeQ)
   /\ last' = [a |-> "ProposerMake"]
   /\ UNCHANGED <<round, lastVoted, lastCommitted, highQC, stored, parked, vAgg, tAgg, delivered, myVotes, myTimeouts>>

EnvVote == UseVotes /\ \E b \in (Universe \cup {p.blk : p \in myProposals}) \ {Genesis}, w \in Others :
      /\ RoundOf(b) >= round /\ <<b, w>> \notin vAgg
      /\ LET vs == VoteStep(b, w, round, highQC, vAgg) IN
           /\ round' = vs.rnd /\ highQC' = vs.hq /\ vAgg' = vs.agg
           /\ makeQ' = makeQ \o vs.mk
           /\ tAgg' = {t \in tAgg : t.round >= vs.rnd}
      /\ last' = [a |-> "EnvVote", blk |-> b, voter |-> w]
      /\ UNCHANGED <<lastVoted, lastCommitted, stored, parked, loop, delivered, myVotes, myTimeouts, myProposals>>

TimeoutStep(t, lv) ==
   LET rnd1 == AdvRound(round, RoundOf(t.qc))
       hq1  == IF RoundOf(t.qc) > RoundOf(highQC) THEN t.qc ELSE highQC
       agg0 == {x \in tAgg : x.round >= rnd1}
       dup  == \E x \in agg0 : x.round = t.round /\ x.author = t.author
       agg1 == IF dup \/ t.round < rnd1 THEN agg0 ELSE agg0 \cup {[author |-> t.author, round |-> t.round, hqr |-> RoundOf(t.qc)]}
       mine == {x \in agg1 : x.round = t.round}
       made == ~dup /\ t.round >= rnd1 /\ Cardinality(mine) = Q
       tc   == [round |-> t.round, hqr |-> SetMax({x.hqr : x \in mine})]
       rnd2 == IF made THEN AdvRound(rnd1, t.round) ELSE rnd1
   IN /\ round' = rnd2 /\ highQC' = hq1
      /\ tAgg' = {x \in agg1 : x.round >= rnd2}
      /\ vAgg' = {x \in vAgg : RoundOf(x[1]) >= rnd2}
      /\ makeQ' = IF made /\ Leader(rnd2) = Me THEN makeQ \o <<[round |-> rnd2, qc |-> hq1, tc |-> tc]>> ELSE makeQ
      /\ lastVoted' = lv

LocalTimeout ==
   /\ round < MaxRound
   /\ myTimeouts' = myTimeouts \cup {[round |-> round, hqr |-> RoundOf(highQC)]}
   /\ TimeoutStep([author |-> Me, round |-> round, qc |-> highQC], Max(lastVoted, round))
   /\ last' = [a |-> "LocalTimeout"]
   /\ UNCHANGED <<lastCommitted, stored, parked, loop, delivered, myVotes, myProposals>>

EnvTimeout == UseTimeouts /\ \E a \in Others, r \in 1..MaxRound, k \in Universe :
   /\ r >= round /\ RoundOf(k) < MaxRound
   /\ TimeoutStep([author |-> a, round |-> r, qc |-> k], lastVoted)
   /\ last' = [a |-> "EnvTimeout", author |-> a, round |-> r, qc |-> k]
   /\ UNCHANGED <<lastCommitted, stored, parked, loop, delivered, myVotes, myTimeouts, myProposals>>

EnvTC == \E tc \in TCs \ {NoTC} :
   /\ tc.round >= round
   /\ LET rnd1 == AdvRound(round, tc.round) IN
        /\ round' = rnd1
        /\ vAgg' = {x \in vAgg : RoundOf(x[1]) >= rnd1}
        /\ tAgg' = {x \in tAgg : x.round >= rnd1}
        /\ makeQ' = IF Leader(rnd1) = Me THEN makeQ \o <<[round |-> rnd1, qc |-> highQC, tc |-> tc]>> ELSE makeQ
   /\ last' = [a |-> "EnvTC", tc |-> tc]
   /\ UNCHANGED <<lastVoted, lastCommitted, highQC, stored, parked, loop, delivered, myVotes, myTimeouts, myProposals>>

Internal == Loopback \/ Unpark \/ ProposerMake
InternalEnabled == makeQ # <<>> \/ loop # {} \/ \E p \in parked : ParentOf(p.blk) \in stored
External == EnvProposal \/ EnvVote \/ LocalTimeout \/ EnvTimeout \/ EnvTC
Obs == [r |-> round, lv |-> lastVoted, lc |-> lastCommitted, hqr |-> RoundOf(highQC), nd |-> Len(delivered), nv |-> Cardinality(myVotes), np |-> Cardinality(myProposals), nt |-> Cardinality(myTimeouts)]
Step == IF InternalEnabled THEN Internal ELSE External
Next == Step /\ hist' = Append(hist, [act |-> last', obs |-> Obs'])
Spec == Init /\ [][Next]_vars

Bound == round <= MaxRound /\ Cardinality(parked) <= MaxBlocksParked

ChainOrder == \A i \in 1..Len(delivered) :
     /\ delivered[i] # Genesis
     /\ ParentOf(delivered[i]) = (IF i = 1 THEN Genesis ELSE delivered[i-1])
OneVotePerRound == \A v, w \in myVotes : RoundOf(v.blk) = RoundOf(w.blk) => v.blk = w.blk
VoteJustified == \A p \in myVotes : LET b == p.blk IN
     /\ RoundOf(ParentOf(b)) < RoundOf(b)
     /\ \/ RoundOf(ParentOf(b)) + 1 = RoundOf(b)
        \/ p.tc # NoTC /\ p.tc.round + 1 = RoundOf(b) /\ p.tc.hqr <= RoundOf(ParentOf(b))
OneProposalPerRound == \A p, q \in myProposals : RoundOf(p.blk) = RoundOf(q.blk) => p.blk = q.blk
TimeoutHQ == \A t \in myTimeouts : \A p \in myVotes : RoundOf(p.blk) <= t.round => RoundOf(ParentOf(p.blk)) <= t.hqr

Emit == Len(hist) < Depth \/ PrintT(<<"BEHAVIOUR", ToJson(hist)>>)
====
