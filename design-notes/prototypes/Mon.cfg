SPECIFICATION Spec
INVARIANT NoViolation
POSTCONDITION Accepted
CHECK_DEADLOCK FALSE
