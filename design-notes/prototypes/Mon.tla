---- MODULE Mon ----
(* PROTOTYPE: property monitors evaluated by TLC on a trace recorded from the real code *)
EXTENDS Integers, Sequences, FiniteSets, TLC, Json, IOUtils
Rec == ndJsonDeserialize(IOEnv.TRACE)
Nodes == 0..3
GenesisDigest == "AAAAAAAAAAAAAAAAAAAAAAAAAAAAAAAAAAAAAAAAAAA="
VARIABLES l, lastVote, timedOut, maxVotedQcr, prevRound, lastDelivered, nDelivered, bad
vars == <<l, lastVote, timedOut, maxVotedQcr, prevRound, lastDelivered, nDelivered, bad>>
Init == /\ l = 1
        /\ lastVote = [n \in Nodes |-> 0] /\ timedOut = [n \in Nodes |-> {}]
        /\ maxVotedQcr = [n \in Nodes |-> 0] /\ prevRound = [n \in Nodes |-> 1]
        /\ lastDelivered = [n \in Nodes |-> GenesisDigest] /\ nDelivered = [n \in Nodes |-> 0]
        /\ bad = <<>>
Max(a, b) == IF a >= b THEN a ELSE b
Flag(c, what) == IF c THEN <<>> ELSE <<<<l, what>>>>
Next ==
  /\ l <= Len(Rec) /\ l' = l + 1
  /\ LET e == Rec[l]  n == e.node IN
     /\ prevRound' = [prevRound EXCEPT ![n] = e.st.r]
     /\ CASE e.ev = "Vote" ->
              /\ lastVote' = [lastVote EXCEPT ![n] = e.round]
              /\ maxVotedQcr' = [maxVotedQcr EXCEPT ![n] = Max(@, e.qcr)]
              /\ bad' = bad \o Flag(e.round > lastVote[n], "C03 vote round not increasing")
                            \o Flag(e.round \notin timedOut[n], "C03 vote after timeout")
                            \o Flag(e.qcr < e.round /\ (e.qcr + 1 = e.round \/ (Len(e.tc) = 2 /\ e.tc[1] + 1 = e.round /\ e.qcr >= e.tc[2])), "C03 vote not justified")
                            \o Flag(e.st.r >= prevRound[n], "C10 round decreased")
              /\ UNCHANGED <<timedOut, lastDelivered, nDelivered>>
          [] e.ev = "Timeout" ->
              /\ timedOut' = [timedOut EXCEPT ![n] = @ \cup {e.round}]
              /\ bad' = bad \o Flag(e.hqr >= maxVotedQcr[n], "C10 timeout high_qc below a voted block's qc")
                            \o Flag(e.st.r >= prevRound[n], "C10 round decreased")
              /\ UNCHANGED <<lastVote, maxVotedQcr, lastDelivered, nDelivered>>
          [] e.ev = "Commit" ->
              /\ lastDelivered' = [lastDelivered EXCEPT ![n] = e.blk]
              /\ nDelivered' = [nDelivered EXCEPT ![n] = @ + 1]
              /\ bad' = bad \o Flag(e.parent = lastDelivered[n], "C02 delivered block's parent is not the previously delivered block")
                            \o Flag(e.blk # GenesisDigest /\ e.round > 0, "C02 genesis delivered")
              /\ UNCHANGED <<lastVote, timedOut, maxVotedQcr>>
          [] OTHER ->
              /\ bad' = bad \o Flag(e.st.r >= prevRound[n], "C10 round decreased")
              /\ UNCHANGED <<lastVote, timedOut, maxVotedQcr, lastDelivered, nDelivered>>
Spec == Init /\ [][Next]_vars
NoViolation == bad = <<>>
Accepted == IF TLCGet("stats").diameter - 1 = Len(Rec)
            THEN PrintT(<<"TRACE ACCEPTED", Len(Rec)>>)
            ELSE Print(<<"TRACE NOT FULLY CONSUMED", TLCGet("stats").diameter>>, FALSE)
====
