---- MODULE Q ----
EXTENDS Integers, TLAPS
Quorum(n) == (2 * n) \div 3 + 1
Faults(n) == (n - 1) \div 3
THEOREM QuorumArith == \A n \in Nat : n >= 1 =>
   /\ 3 * Quorum(n) > 2 * n
   /\ Quorum(n) <= n - Faults(n)
   /\ 2 * Quorum(n) - n > Faults(n)
   /\ Quorum(n) = n - Faults(n)
  BY Z3 DEF Quorum, Faults
====
