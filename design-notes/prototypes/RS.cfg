SPECIFICATION Spec
CONSTANTS M = 3
 MaxBreaks = 3
INVARIANT Pairing
INVARIANT FirstOrder
PROPERTY Eventually
CHECK_DEADLOCK FALSE
