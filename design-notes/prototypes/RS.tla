---- MODULE RS ----
(* PROTOTYPE: network/src/reliable_sender.rs Connection task + peer, for sizing *)
EXTENDS Integers, Sequences, FiniteSets, TLC
CONSTANTS M, MaxBreaks
VARIABLES next, inq, buffer, pending, conn, wireOut, wireIn, peerLog, handle, resolvedWith, breaks
vars == <<next, inq, buffer, pending, conn, wireOut, wireIn, peerLog, handle, resolvedWith, breaks>>
Ids == 1..M
Init == /\ next = 1 /\ inq = <<>> /\ buffer = <<>> /\ pending = <<>> /\ conn = "down"
        /\ wireOut = <<>> /\ wireIn = <<>> /\ peerLog = <<>>
        /\ handle = [i \in Ids |-> "none"] /\ resolvedWith = [i \in Ids |-> 0] /\ breaks = 0
Keep(s) == SelectSeq(s, LAMBDA x : handle[x] # "cancelled")
Send == /\ next <= M /\ inq' = Append(inq, next) /\ handle' = [handle EXCEPT ![next] = "open"] /\ next' = next + 1
        /\ UNCHANGED <<buffer, pending, conn, wireOut, wireIn, peerLog, resolvedWith, breaks>>
Cancel == \E i \in Ids : /\ handle[i] = "open" /\ handle' = [handle EXCEPT ![i] = "cancelled"]
        /\ UNCHANGED <<next, inq, buffer, pending, conn, wireOut, wireIn, peerLog, resolvedWith, breaks>>
ConnectOk == /\ conn = "down" /\ conn' = "up" /\ wireOut' = <<>> /\ wireIn' = <<>>
        /\ UNCHANGED <<next, inq, buffer, pending, peerLog, handle, resolvedWith, breaks>>
DrainDown == /\ conn = "down" /\ inq # <<>> /\ buffer' = Keep(Append(buffer, Head(inq))) /\ inq' = Tail(inq)
        /\ UNCHANGED <<next, pending, conn, wireOut, wireIn, peerLog, handle, resolvedWith, breaks>>
Write == /\ conn = "up" /\ buffer # <<>>
         /\ LET m == Head(buffer) IN
            IF handle[m] = "cancelled" THEN /\ buffer' = Tail(buffer) /\ UNCHANGED <<pending, wireOut>>
            ELSE /\ buffer' = Tail(buffer) /\ pending' = Append(pending, m) /\ wireOut' = Append(wireOut, m)
         /\ UNCHANGED <<next, inq, conn, wireIn, peerLog, handle, resolvedWith, breaks>>
Recv == /\ conn = "up" /\ buffer = <<>> /\ inq # <<>> /\ buffer' = <<Head(inq)>> /\ inq' = Tail(inq)
        /\ UNCHANGED <<next, pending, conn, wireOut, wireIn, peerLog, handle, resolvedWith, breaks>>
PeerDeliver == /\ conn = "up" /\ wireOut # <<>> /\ peerLog' = Append(peerLog, Head(wireOut))
        /\ wireIn' = Append(wireIn, Head(wireOut)) /\ wireOut' = Tail(wireOut)
        /\ UNCHANGED <<next, inq, buffer, pending, conn, handle, resolvedWith, breaks>>
ReadAck == /\ conn = "up" /\ buffer = <<>> /\ wireIn # <<>> /\ pending # <<>>
        /\ LET p == Head(pending)  a == Head(wireIn) IN
             /\ pending' = Tail(pending) /\ wireIn' = Tail(wireIn)
             /\ IF handle[p] = "open" THEN /\ handle' = [handle EXCEPT ![p] = "resolved"]
                                           /\ resolvedWith' = [resolvedWith EXCEPT ![p] = a]
                ELSE UNCHANGED <<handle, resolvedWith>>
        /\ UNCHANGED <<next, inq, buffer, conn, wireOut, peerLog, breaks>>
Break == /\ conn = "up" /\ breaks < MaxBreaks /\ breaks' = breaks + 1 /\ conn' = "down"
        /\ buffer' = pending \o buffer /\ pending' = <<>> /\ wireOut' = <<>> /\ wireIn' = <<>>
        /\ UNCHANGED <<next, inq, peerLog, handle, resolvedWith>>
Next == Send \/ Cancel \/ ConnectOk \/ DrainDown \/ Write \/ Recv \/ PeerDeliver \/ ReadAck \/ Break
Spec == Init /\ [][Next]_vars /\ WF_vars(ConnectOk \/ DrainDown \/ Write \/ Recv \/ PeerDeliver \/ ReadAck)
Pairing == \A i \in Ids : handle[i] = "resolved" => resolvedWith[i] = i
RECURSIVE Firsts(_, _)
Firsts(s, seen) == IF s = <<>> THEN <<>> ELSE IF Head(s) \in seen THEN Firsts(Tail(s), seen) ELSE <<Head(s)>> \o Firsts(Tail(s), seen \cup {Head(s)})
FirstOrder == LET f == Firsts(peerLog, {}) IN \A i, j \in 1..Len(f) : i < j => f[i] < f[j]
Eventually == \A i \in Ids : [](handle[i] = "open" => <>(handle[i] # "open"))
====
