---- MODULE T ----
EXTENDS Integers, Sequences, TLC, Json, IOUtils
Rec == ndJsonDeserialize(IOEnv.TRACE)
VARIABLES l, x
Init == l = 1 /\ x = 0
Next == l <= Len(Rec) /\ l' = l + 1 /\ x' = Rec[l].v /\ Rec[l].v = x + 1
Spec == Init /\ [][Next]_<<l,x>>
Accepted == IF TLCGet("stats").diameter - 1 = Len(Rec) THEN TRUE ELSE Print(<<"REJECT at", TLCGet("stats").diameter>>, FALSE)
====
