// PROTOTYPE: replay TLC-generated behaviours of the single-node open-system model into one real node.
use bytes::Bytes;
use consensus::verif_export::ConsensusMessage;
use consensus::{Block, Committee, Consensus, Parameters, QC, TC};
use crypto::{generate_keypair, Digest, Hash as _, PublicKey, SecretKey, Signature, SignatureService};
use ed25519_dalek::{Digest as _, Sha512};
use futures::{FutureExt, SinkExt, StreamExt};
use network::simnet;
use rand::rngs::StdRng;
use rand::SeedableRng;
use serde_json::Value;
use std::collections::HashMap;
use std::convert::TryInto;
use std::time::Duration;
use store::Store;
use tokio::io::DuplexStream;
use tokio::sync::mpsc::channel;
use tokio_util::codec::{Framed, LengthDelimitedCodec};

const ME: usize = 1;
const DELAY: u64 = 1_000;

async fn settle() {
    for _ in 0..150 {
        tokio::task::yield_now().await;
    }
}

struct Env {
    keys: Vec<(PublicKey, SecretKey)>, // sorted by public key: index = abstract node id
    memo: HashMap<String, Block>,
}

fn h(parts: &[&[u8]]) -> Digest {
    let mut hasher = Sha512::new();
    for p in parts {
        hasher.update(p);
    }
    Digest(hasher.finalize().as_slice()[..32].try_into().unwrap())
}

impl Env {
    fn others(&self) -> Vec<usize> {
        (0..4).filter(|i| *i != ME).collect()
    }
    fn qc_for(&self, b: &Block) -> QC {
        let qc = QC { hash: b.digest(), round: b.round, votes: Vec::new() };
        let d = qc.digest();
        let votes = self.others().iter().map(|i| (self.keys[*i].0, Signature::new(&d, &self.keys[*i].1))).collect();
        QC { votes, ..qc }
    }
    fn tc(&self, round: u64, hqr: u64) -> TC {
        let votes = self
            .others()
            .iter()
            .enumerate()
            .map(|(k, i)| {
                let r = if k == 0 { hqr } else { 0 };
                let d = h(&[&round.to_le_bytes(), &r.to_le_bytes()]);
                (self.keys[*i].0, Signature::new(&d, &self.keys[*i].1), r)
            })
            .collect();
        TC { round, votes }
    }
    // abstract block [round, author, variant, parent] -> concrete
    fn block(&mut self, v: &Value, tc: Option<TC>) -> Block {
        let key = v.to_string();
        let round = v[0].as_u64().unwrap();
        let author = v[1].as_i64().unwrap() as usize;
        let parent = &v[3];
        let qc = if parent[0].as_u64().unwrap() == 0 {
            QC::genesis()
        } else {
            let p = match self.memo.get(&parent.to_string()) {
                Some(p) => p.clone(),
                None => self.block(parent, None),
            };
            self.qc_for(&p)
        };
        let mut b = Block { qc, tc, author: self.keys[author].0, round, payload: Vec::new(), signature: Signature::default() };
        b.signature = Signature::new(&b.digest(), &self.keys[author].1);
        self.memo.insert(key, b.clone());
        b
    }
}

#[derive(Debug, Default, Clone, PartialEq)]
struct Obs { r: u64, lv: u64, lc: u64, hqr: u64, nv: u64, nt: u64, nd: u64, nd_genesis: u64 }

fn main() {
    let path = std::env::args().nth(1).unwrap();
    let limit: usize = std::env::args().nth(2).map(|x| x.parse().unwrap()).unwrap_or(100);
    let mut rng = StdRng::from_seed([0; 32]);
    let mut keys: Vec<(PublicKey, SecretKey)> = (0..4).map(|_| generate_keypair(&mut rng)).collect();
    keys.sort_by(|a, b| a.0.cmp(&b.0));
    let committee = Committee::new(
        keys.iter().enumerate().map(|(i, (pk, _))| (*pk, 1, format!("127.0.0.1:{}", 9000 + i).parse().unwrap())).collect(),
        1,
    );
    let text = std::fs::read_to_string(&path).unwrap();
    let (mut ok, mut diverged, mut steps) = (0, 0, 0);
    let mut kinds: HashMap<String, usize> = HashMap::new();
    let t0 = std::time::Instant::now();
    for (bi, line) in text.lines().take(limit).enumerate() {
        let beh: Vec<Value> = serde_json::from_str(line).unwrap();
        // fresh node
        simnet::reset();
        simnet::install_switch();
        simnet::set_current(ME);
        let _ = consensus::verif::drain();
        let rt = tokio::runtime::Builder::new_current_thread().enable_all().start_paused(true).build().unwrap();
        let dbpath = format!("/dev/shm/replay_db_{}", bi % 4);
        let _ = std::fs::remove_dir_all(&dbpath);
        let sk = SecretKey::decode_base64(&keys[ME].1.encode_base64()).unwrap();
        let pk = keys[ME].0;
        let committee2 = committee.clone();
        let (mut commit_rx, _keep) = rt.block_on(async move {
            let store = Store::new(&dbpath).unwrap();
            let sig = SignatureService::new(sk);
            let (tx_c2m, mut rx_c2m) = channel(1000);
            let (tx_m2c, rx_m2c) = channel::<Digest>(1000);
            let (tx_commit, rx_commit) = channel(1000);
            tokio::spawn(async move { while rx_c2m.recv().await.is_some() {} });
            Consensus::spawn(pk, committee2, Parameters { timeout_delay: DELAY, sync_retry_delay: 1_000_000 }, sig, store, rx_m2c, tx_c2m, tx_commit);
            (rx_commit, tx_m2c)
        });
        let mut env = Env { keys: keys.iter().map(|(p, s)| (*p, SecretKey::decode_base64(&s.encode_base64()).unwrap())).collect(), memo: HashMap::new() };
        let mut conns: Vec<Framed<DuplexStream, LengthDelimitedCodec>> = Vec::new();
        let mut inbound: Option<Framed<DuplexStream, LengthDelimitedCodec>> = None;
        let mut obs = Obs { r: 1, ..Default::default() };
        let mut bad: Option<String> = None;
        // pump: run node to quiescence, ack proposals, fold events into obs
        macro_rules! pump {
            () => {{
                for _ in 0..3 {
                    rt.block_on(settle());
                    for ic in simnet::take_intercepted() {
                        conns.push(Framed::new(ic.stream, LengthDelimitedCodec::new()));
                    }
                    for c in conns.iter_mut() {
                        while let Some(Some(Ok(f))) = c.next().now_or_never() {
                            if let Ok(ConsensusMessage::Propose(_)) = bincode::deserialize::<ConsensusMessage>(&f) {
                                let _ = c.send(Bytes::from("Ack")).now_or_never();
                            }
                        }
                    }
                }
                for line in consensus::verif::drain() {
                    let e: Value = serde_json::from_str(&line).unwrap();
                    let st = &e["st"];
                    obs.r = st["r"].as_u64().unwrap();
                    obs.lv = st["lv"].as_u64().unwrap();
                    obs.lc = st["lc"].as_u64().unwrap();
                    obs.hqr = st["hqr"].as_u64().unwrap();
                    match e["ev"].as_str().unwrap() {
                        "Vote" => obs.nv += 1,
                        "Timeout" => obs.nt += 1,
                        "Commit" => { if e["round"].as_u64().unwrap() == 0 { obs.nd_genesis += 1 } else { obs.nd += 1 } }
                        _ => (),
                    }
                }
                while commit_rx.try_recv().is_ok() {}
            }};
        }
        pump!();
        let mut i = 0;
        while i < beh.len() {
            let act = &beh[i]["act"];
            let a = act["a"].as_str().unwrap();
            let internal = a == "ProposerMake" || a == "Loopback" || a == "Unpark";
            if !internal {
                let msg = match a {
                    "EnvProposal" => {
                        let tc = if act["tc"]["round"].as_i64().unwrap() >= 0 { Some(env.tc(act["tc"]["round"].as_u64().unwrap(), act["tc"]["hqr"].as_u64().unwrap())) } else { None };
                        Some(ConsensusMessage::Propose(env.block(&act["blk"], tc)))
                    }
                    "EnvTC" => Some(ConsensusMessage::TC(env.tc(act["tc"]["round"].as_u64().unwrap(), act["tc"]["hqr"].as_u64().unwrap()))),
                    "LocalTimeout" => None,
                    other => panic!("unsupported action {}", other),
                };
                match msg {
                    Some(m) => {
                        if inbound.is_none() {
                            inbound = Some(Framed::new(simnet::connect_direct(format!("127.0.0.1:{}", 9000 + ME).parse().unwrap()).unwrap(), LengthDelimitedCodec::new()));
                        }
                        inbound.as_mut().unwrap().send(Bytes::from(bincode::serialize(&m).unwrap())).now_or_never().unwrap().unwrap();
                    }
                    None => rt.block_on(async { tokio::time::advance(Duration::from_millis(DELAY + 1)).await }),
                }
            }
            // skip to the last consecutive internal step after this one (stable state)
            let mut j = i;
            while j + 1 < beh.len() {
                let n = beh[j + 1]["act"]["a"].as_str().unwrap();
                if n == "ProposerMake" || n == "Loopback" || n == "Unpark" { j += 1 } else { break }
            }
            // the last step of the behaviour may be followed by internal steps TLC did not take: only compare if next exists or no internal pending
            pump!();
            steps += 1;
            let o = &beh[j]["obs"];
            let exp = Obs { r: o["r"].as_u64().unwrap(), lv: o["lv"].as_u64().unwrap(), lc: o["lc"].as_u64().unwrap(), hqr: o["hqr"].as_u64().unwrap(), nv: o["nv"].as_u64().unwrap(), nt: o["nt"].as_u64().unwrap(), nd: o["nd"].as_u64().unwrap(), nd_genesis: 0 };
            let last = j + 1 == beh.len();
            let same = (obs.r, obs.lv, obs.lc, obs.hqr, obs.nv, obs.nd, obs.nd_genesis) == (exp.r, exp.lv, exp.lc, exp.hqr, exp.nv, exp.nd, 0) && obs.nt >= exp.nt;
            if !last && !same {
                let mut kind = String::new();
                if (obs.r, obs.lv, obs.lc, obs.hqr, obs.nv, obs.nt) != (exp.r, exp.lv, exp.lc, exp.hqr, exp.nv, exp.nt) { kind += "STATE " }
                if obs.nd_genesis > 0 { kind += "GENESIS-DELIVERED " }
                if obs.nd != exp.nd { kind += "DELIVERED-COUNT " }
                *kinds.entry(kind.clone()).or_insert(0) += 1;
                if bad.is_none() { bad = Some(format!("behaviour {} step {} ({}): impl {:?} spec {:?} [{}]", bi, j, beh[i]["act"], obs, exp, kind)); }
                break;
            }
            i = j + 1;
        }
        match bad {
            Some(b) => { diverged += 1; if diverged <= 6 { println!("DIVERGENCE {}", b); } }
            None => ok += 1,
        }
        drop(rt);
    }
    println!("replayed {} behaviours ({} external steps) in {:?}: {} agree, {} diverge; kinds {:?}", ok + diverged, steps, t0.elapsed(), ok, diverged, kinds);
}
