use bytes::Bytes;
use consensus::verif_export::ConsensusMessage;
use consensus::{Block, Committee, Consensus, Parameters};
use mempool::{Committee as MCommittee, Mempool, Parameters as MParameters};
use crypto::{generate_keypair, PublicKey, SecretKey, SignatureService};
use futures::{FutureExt, SinkExt, StreamExt};
use network::simnet;
use rand::rngs::StdRng;
use rand::SeedableRng;
use std::collections::HashMap;
use std::net::SocketAddr;
use std::time::Duration;
use store::Store;
use tokio::io::DuplexStream;
use tokio::runtime::Runtime;
use tokio::sync::mpsc::{channel, Receiver, Sender};
use tokio_util::codec::{Framed, LengthDelimitedCodec};

struct NodeRt {
    rt: Runtime,
    commit: Receiver<Block>,
    _tx_mempool: Sender<crypto::Digest>,
}

async fn settle() {
    for _ in 0..200 {
        tokio::task::yield_now().await;
    }
}

struct Conn {
    origin: usize,
    dest: SocketAddr,
    out: Framed<DuplexStream, LengthDelimitedCodec>, // from origin
    to_dest: Option<Framed<DuplexStream, LengthDelimitedCodec>>,
}

fn main() {
    let mut rng = StdRng::from_seed([0; 32]);
    let keys: Vec<(PublicKey, SecretKey)> = (0..4).map(|_| generate_keypair(&mut rng)).collect();
    let mut sorted: Vec<PublicKey> = keys.iter().map(|k| k.0).collect();
    sorted.sort();
    let committee = Committee::new(
        keys.iter().enumerate().map(|(i, (pk, _))| (*pk, 1, format!("127.0.0.1:{}", 9000 + i).parse().unwrap())).collect(),
        1,
    );
    let mcommittee = MCommittee::new(
        keys.iter().enumerate().map(|(i, (pk, _))| (*pk, 1, format!("127.0.0.1:{}", 9100 + i).parse().unwrap(), format!("127.0.0.1:{}", 9200 + i).parse().unwrap())).collect(),
        1,
    );
    let mut port_to_node: HashMap<u16, usize> = HashMap::new();
    for i in 0..4u16 { for base in [9000u16, 9100, 9200] { port_to_node.insert(base + i, i as usize); } }
    simnet::reset();
    simnet::install_switch();
    let mut nodes = Vec::new();
    for (i, (pk, sk)) in keys.into_iter().enumerate() {
        let rt = tokio::runtime::Builder::new_current_thread().enable_all().start_paused(true).build().unwrap();
        let path = format!("/dev/shm/h1db_{}", i);
        let _ = std::fs::remove_dir_all(&path);
        let committee = committee.clone();
        let mcommittee = mcommittee.clone();
        simnet::set_current(i);
        let (commit, txm) = rt.block_on(async move {
            let store = Store::new(&path).unwrap();
            let sig = SignatureService::new(sk);
            let (tx_c2m, rx_c2m) = channel(1000);
            let (tx_m2c, rx_m2c) = channel(1000);
            let (tx_commit, rx_commit) = channel(1000);
            let mp = MParameters { gc_depth: 50, sync_retry_delay: 5_000, sync_retry_nodes: 3, batch_size: 10, max_batch_delay: 100 };
            Mempool::spawn(pk, mcommittee, mp, store.clone(), rx_c2m, tx_m2c.clone());
            let p = Parameters { timeout_delay: 1_000, sync_retry_delay: 10_000 };
            Consensus::spawn(pk, committee, p, sig, store, rx_m2c, tx_c2m, tx_commit);
            settle().await;
            (rx_commit, tx_m2c)
        });
        nodes.push(NodeRt { rt, commit, _tx_mempool: txm });
    }
    let mut conns: Vec<Conn> = Vec::new();
    let mut delivered = 0usize;
    let t0 = std::time::Instant::now();
    let crashed: usize = std::env::var("CRASH").ok().and_then(|x| x.parse().ok()).unwrap_or(99);
    let crash_at: usize = std::env::var("CRASH_AT").ok().and_then(|x| x.parse().ok()).unwrap_or(20);
    let mut advances = 0;
    let mut submitted = 0;
    let mut txconns = Vec::new();
    for step in 0..400 {
        if step % 10 == 3 && step < 200 {
            let target = (step / 10) % 4;
            let mut c = Framed::new(simnet::connect_direct(format!("127.0.0.1:{}", 9100 + target).parse().unwrap()).unwrap(), LengthDelimitedCodec::new());
            let tx = format!("tx-{:04}-0123456789", step);
            c.send(Bytes::from(tx)).now_or_never().unwrap().unwrap();
            submitted += 1;
            txconns.push(c);
        }
        // run every node until quiescent, collecting its connections / frames
        let mut frames: Vec<(usize, usize, Bytes)> = Vec::new(); // (conn idx, dest node, data)
        for i in 0..4 {
            if i == crashed && step >= crash_at { continue; }
            simnet::set_current(i);
            nodes[i].rt.block_on(settle());
            for ic in simnet::take_intercepted() {
                conns.push(Conn { origin: ic.origin, dest: ic.dest, out: Framed::new(ic.stream, LengthDelimitedCodec::new()), to_dest: None });
            }
        }
        for (ci, c) in conns.iter_mut().enumerate() {
            while let Some(Some(Ok(f))) = c.out.next().now_or_never() {
                frames.push((ci, port_to_node[&c.dest.port()], f.freeze()));
            }
        }
        if frames.is_empty() {
            // nothing in flight: fire timers everywhere
            advances += 1;
            for i in 0..4 {
                if i == crashed { continue; }
                simnet::set_current(i);
                nodes[i].rt.block_on(async { tokio::time::advance(Duration::from_millis(1001)).await; settle().await; });
            }

        }
        for (ci, dest, data) in frames {
            if dest == crashed && step >= crash_at { continue; }
            let c = &mut conns[ci];
            if c.to_dest.is_none() {
                c.to_dest = Some(Framed::new(simnet::connect_direct(c.dest).unwrap(), LengthDelimitedCodec::new()));
            }
            let kind = match bincode::deserialize::<ConsensusMessage>(&data) { Ok(m) => format!("{:?}", m).chars().take(40).collect::<String>(), Err(_) => "??".into() };
            if step < 6 { println!("step {} deliver {}->{} {}", step, c.origin, dest, kind); }
            c.to_dest.as_mut().unwrap().send(data).now_or_never().unwrap().unwrap();
            delivered += 1;
            simnet::set_current(dest);
            nodes[dest].rt.block_on(settle());
            // relay replies (acks) back
            let c = &mut conns[ci];
            while let Some(Some(Ok(r))) = c.to_dest.as_mut().unwrap().next().now_or_never() {
                c.out.send(r.freeze()).now_or_never().unwrap().unwrap();
            }
        }
    }
    for (i, n) in nodes.iter_mut().enumerate() {
        let mut rounds = Vec::new();
        let mut digests = 0;
        while let Ok(b) = n.commit.try_recv() { rounds.push(b.round); digests += b.payload.len(); }
        println!("node {} committed {} blocks, last {:?}, payload digests committed {}", i, rounds.len(), rounds.last(), digests);
    }
    println!("clock advances: {} submitted txs: {}", advances, submitted);
    {
        use std::io::Write;
        let idx: HashMap<String, usize> = sorted.iter().enumerate().map(|(i, k)| (base64::encode(&k.0), i)).collect();
        let mut f = std::fs::File::create("/scratch/h1/trace.ndjson").unwrap();
        let mut n = 0;
        for line in consensus::verif::drain() {
            let mut v: serde_json::Value = serde_json::from_str(&line).unwrap();
            let name = v["node"].as_str().unwrap().to_string();
            v["node"] = serde_json::json!(idx[&name]);
            writeln!(f, "{}", v).unwrap();
            n += 1;
        }
        println!("trace events: {}", n);
    }
    println!("delivered {} frames in {:?}", delivered, t0.elapsed());
}
