// In-memory transport used only when built with --cfg hotstuff_verif.
use std::collections::{HashMap, VecDeque};
use std::io;
use std::net::SocketAddr;
use std::pin::Pin;
use std::sync::Mutex;
use std::task::{Context, Poll};
use tokio::io::{AsyncRead, AsyncWrite, DuplexStream, ReadBuf};
use tokio::sync::mpsc::{unbounded_channel, UnboundedReceiver, UnboundedSender};

pub struct TcpStream(DuplexStream);

impl AsyncRead for TcpStream {
    fn poll_read(mut self: Pin<&mut Self>, cx: &mut Context<'_>, buf: &mut ReadBuf<'_>) -> Poll<io::Result<()>> {
        Pin::new(&mut self.0).poll_read(cx, buf)
    }
}
impl AsyncWrite for TcpStream {
    fn poll_write(mut self: Pin<&mut Self>, cx: &mut Context<'_>, buf: &[u8]) -> Poll<io::Result<usize>> {
        Pin::new(&mut self.0).poll_write(cx, buf)
    }
    fn poll_flush(mut self: Pin<&mut Self>, cx: &mut Context<'_>) -> Poll<io::Result<()>> {
        Pin::new(&mut self.0).poll_flush(cx)
    }
    fn poll_shutdown(mut self: Pin<&mut Self>, cx: &mut Context<'_>) -> Poll<io::Result<()>> {
        Pin::new(&mut self.0).poll_shutdown(cx)
    }
}

/// A connection attempt intercepted by the harness switch.
pub struct Intercepted {
    pub origin: usize,
    pub dest: SocketAddr,
    pub stream: DuplexStream,
}

struct Net {
    listeners: HashMap<u16, UnboundedSender<(TcpStream, SocketAddr)>>,
    switch: Option<VecDeque<Intercepted>>,
    refuse: Option<Box<dyn Fn(usize, SocketAddr) -> bool + Send>>,
    current: usize,
}

static NET: Mutex<Option<Net>> = Mutex::new(None);

fn with_net<T>(f: impl FnOnce(&mut Net) -> T) -> T {
    let mut g = NET.lock().unwrap();
    if g.is_none() {
        *g = Some(Net { listeners: HashMap::new(), switch: None, refuse: None, current: usize::MAX });
    }
    f(g.as_mut().unwrap())
}

const BUF: usize = 1 << 24;

pub fn reset() { *NET.lock().unwrap() = None; }
pub fn install_switch() { with_net(|n| n.switch = Some(VecDeque::new())); }
pub fn set_refuse(f: Box<dyn Fn(usize, SocketAddr) -> bool + Send>) { with_net(|n| n.refuse = Some(f)); }
pub fn set_current(node: usize) { with_net(|n| n.current = node); }
pub fn take_intercepted() -> Vec<Intercepted> {
    with_net(|n| n.switch.as_mut().map(|q| q.drain(..).collect()).unwrap_or_default())
}
/// Harness side: open a connection straight to a node's listener.
pub fn connect_direct(addr: SocketAddr) -> io::Result<DuplexStream> {
    with_net(|n| match n.listeners.get(&addr.port()) {
        Some(tx) => {
            let (a, b) = tokio::io::duplex(BUF);
            tx.send((TcpStream(b), "127.0.0.1:1".parse().unwrap()))
                .map_err(|_| io::Error::new(io::ErrorKind::ConnectionRefused, "listener gone"))?;
            Ok(a)
        }
        None => Err(io::Error::new(io::ErrorKind::ConnectionRefused, "no listener")),
    })
}

impl TcpStream {
    pub async fn connect(addr: SocketAddr) -> io::Result<TcpStream> {
        with_net(|n| {
            let origin = n.current;
            if let Some(f) = &n.refuse {
                if f(origin, addr) {
                    return Err(io::Error::new(io::ErrorKind::ConnectionRefused, "refused by policy"));
                }
            }
            let (a, b) = tokio::io::duplex(BUF);
            if let Some(q) = n.switch.as_mut() {
                q.push_back(Intercepted { origin, dest: addr, stream: b });
                return Ok(TcpStream(a));
            }
            match n.listeners.get(&addr.port()) {
                Some(tx) => {
                    tx.send((TcpStream(b), "127.0.0.1:1".parse().unwrap()))
                        .map_err(|_| io::Error::new(io::ErrorKind::ConnectionRefused, "listener gone"))?;
                    Ok(TcpStream(a))
                }
                None => Err(io::Error::new(io::ErrorKind::ConnectionRefused, "no listener")),
            }
        })
    }
}

pub struct TcpListener {
    rx: tokio::sync::Mutex<UnboundedReceiver<(TcpStream, SocketAddr)>>,
}

impl TcpListener {
    pub async fn bind(addr: &SocketAddr) -> io::Result<TcpListener> {
        let (tx, rx) = unbounded_channel();
        with_net(|n| n.listeners.insert(addr.port(), tx));
        Ok(TcpListener { rx: tokio::sync::Mutex::new(rx) })
    }
    pub async fn accept(&self) -> io::Result<(TcpStream, SocketAddr)> {
        match self.rx.lock().await.recv().await {
            Some(x) => Ok(x),
            None => std::future::pending().await,
        }
    }
}
