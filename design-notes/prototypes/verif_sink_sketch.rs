// Event sink for verification builds (cfg(hotstuff_verif) only).
use std::sync::Mutex;

static SINK: Mutex<Vec<String>> = Mutex::new(Vec::new());

pub fn emit(line: String) {
    SINK.lock().unwrap().push(line);
}

pub fn drain() -> Vec<String> {
    std::mem::take(&mut *SINK.lock().unwrap())
}

pub fn b64(d: &[u8]) -> String {
    base64::encode(d)
}
