//! Replays a global schedule produced by TLC (MC_Global simulation: the `acts` labels) against real nodes.
//! Honest authorities of the model are real stacks; Byzantine authorities are played by the harness, which can
//! use every signature that has appeared on the (harness-owned) wire plus the Byzantine keys -- exactly the
//! adversary of the model.  Used for (a) attack scripts found by TLC on weakened models: on correct code the
//! schedule is refused at some step, on code with the same weakness honest nodes really commit conflicting
//! blocks; (b) plain behaviours of the unweakened model (spec -> code conformance of the multi-node system).
use crate::rig::{Frame, Port, Rig, RigCfg};
use crate::util::{Args, NdWriter};
use bytes::Bytes;
use consensus::verif_export::{ConsensusMessage, Timeout, Vote};
use consensus::{Block, QC, TC};
use crypto::{Digest, Hash as _};
use serde_json::{json, Value};
use std::collections::HashMap;

struct World {
    rig: Rig,
    byz: Vec<usize>,
    map: HashMap<String, Block>, // abstract block (json) -> concrete
    props: Vec<(Frame, Block)>,
    votes: Vec<(Frame, Vote)>,
    timeouts: Vec<(Frame, Timeout)>,
    tcs: Vec<(Frame, TC)>,
    acked: std::collections::HashSet<u64>,
    refused: usize,
    executed: usize,
    /// payload mode (schedules with LateProposal / PayloadResume): every block carries at least one batch; a batch is written
    /// to a node's store when the schedule says that node has it
    payloads: bool,
    fed: u64,
}

impl World {
    fn collect(&mut self) {
        for _ in 0..3 {
            let n = self.rig.cfg.n;
            for i in 0..n {
                self.rig.pump(i);
            }
            let frames = self.rig.take_frames();
            if frames.is_empty() {
                break;
            }
            for f in frames {
                match Rig::decode(&f) {
                    Some(ConsensusMessage::Propose(b)) => {
                        // the receiver's network layer ACKs on receipt; the core may process much later
                        if self.acked.insert(f.id) {
                            self.rig.ack(&f);
                        }
                        self.props.push((f, b));
                    }
                    Some(ConsensusMessage::Vote(v)) => self.votes.push((f, v)),
                    Some(ConsensusMessage::Timeout(t)) => self.timeouts.push((f, t)),
                    Some(ConsensusMessage::TC(t)) => self.tcs.push((f, t)),
                    _ => (),
                }
            }
        }
    }

    /// hand a fresh batch digest to node i's proposer (as its mempool would), so that its next block has a payload
    fn feed(&mut self, i: usize) {
        if !self.payloads || !self.rig.is_real(i) {
            return;
        }
        self.fed += 1;
        let d = crate::rig::sha(&[b"fed-batch", &self.fed.to_le_bytes(), &(i as u64).to_le_bytes()]);
        // as the node's own Processor does: the batch is in the creator's store before consensus learns its digest
        self.rig.store_write(i, d.to_vec(), vec![1]);
        if let Some(nd) = self.rig.nodes[i].as_ref() {
            let _ = nd.tx_m2c.try_send(d);
        }
        self.rig.pump(i);
    }

    /// node n obtains the batches of block b
    fn make_available(&mut self, n: usize, b: &Block) {
        for d in &b.payload {
            if self.rig.store_read(n, d.to_vec()).is_none() {
                self.rig.store_write(n, d.to_vec(), vec![1]);
            }
        }
    }

    fn is_genesis(v: &Value) -> bool {
        v[0].as_u64() == Some(0)
    }

    /// the QC an adversary can exhibit for a block: one seen on the wire, else assembled from wire votes + own keys
    fn qc_for(&self, b: &Block) -> QC {
        let d = b.digest();
        for (_, p) in &self.props {
            if p.qc.hash == d && p.qc.round == b.round {
                return p.qc.clone();
            }
        }
        for (_, t) in &self.timeouts {
            if t.high_qc.hash == d && t.high_qc.round == b.round {
                return t.high_qc.clone();
            }
        }
        let mut votes: Vec<(crypto::PublicKey, crypto::Signature)> = Vec::new();
        for (_, v) in &self.votes {
            if v.hash == d && v.round == b.round && !votes.iter().any(|(k, _)| *k == v.author) {
                votes.push((v.author, v.signature.clone()));
            }
        }
        let qc = QC {
            hash: d,
            round: b.round,
            votes: Vec::new(),
        };
        let dg = qc.digest();
        for z in &self.byz {
            votes.push((self.rig.keys[*z].0, self.rig.sign(*z, &dg)));
        }
        QC { votes, ..qc }
    }

    fn tc_for(&self, tc: &Value) -> Option<TC> {
        let round = tc["round"].as_i64().unwrap();
        if round < 0 {
            return None;
        }
        let round = round as u64;
        let hqr = tc["hqr"].as_u64().unwrap();
        // a TC broadcast by an honest node, if it has the wanted shape
        for (_, t) in &self.tcs {
            if t.round == round && t.high_qc_rounds().iter().max().cloned() == Some(hqr) {
                return Some(t.clone());
            }
        }
        let mut votes: Vec<(crypto::PublicKey, crypto::Signature, u64)> = Vec::new();
        for (_, t) in &self.timeouts {
            if t.round == round && t.high_qc.round <= hqr && !votes.iter().any(|(k, _, _)| *k == t.author) {
                votes.push((t.author, t.signature.clone(), t.high_qc.round));
            }
        }
        for z in &self.byz {
            let d = Rig::timeout_digest(round, hqr);
            votes.push((self.rig.keys[*z].0, self.rig.sign(*z, &d), hqr));
        }
        Some(TC { round, votes })
    }

    /// abstract block -> concrete block, if it exists / can be fabricated
    fn resolve(&mut self, v: &Value) -> Option<Block> {
        if Self::is_genesis(v) {
            return Some(Block::genesis());
        }
        let key = v.to_string();
        if let Some(b) = self.map.get(&key) {
            return Some(b.clone());
        }
        let round = v[0].as_u64().unwrap();
        let author = v[1].as_u64().unwrap() as usize;
        let variant = v[2].as_u64().unwrap();
        let parent = self.resolve(&v[3])?;
        let parent_hash = if Self::is_genesis(&v[3]) { Digest::default() } else { parent.digest() };
        if self.byz.contains(&author) {
            let qc = if Self::is_genesis(&v[3]) { QC::genesis() } else { self.qc_for(&parent) };
            let nb = if self.payloads { variant + 1 } else { variant };
            let payload: Vec<Digest> = (0..nb)
                .map(|k| crate::rig::sha(&[b"variant", &round.to_le_bytes(), &k.to_le_bytes()]))
                .collect();
            // make the payload available at every real node (unless the schedule decides who has which batch)
            if !self.payloads {
                for d in &payload {
                    for i in 0..self.rig.cfg.n {
                        self.rig.store_write(i, d.to_vec(), vec![1]);
                    }
                }
            }
            let b = self.rig.make_block(author, round, qc, None, payload);
            self.map.insert(key, b.clone());
            return Some(b);
        }
        let pk = self.rig.keys[author].0;
        let found = self
            .props
            .iter()
            .find(|(_, b)| b.round == round && b.author == pk && b.qc.hash == parent_hash)
            .map(|(_, b)| b.clone());
        if let Some(b) = found {
            self.map.insert(key, b.clone());
            return Some(b);
        }
        None
    }

    fn refuse(&mut self, step: usize, act: &Value, why: &str) {
        self.refused += 1;
        self.rig
            .rig_event(json!({"t":"rig","k":"Refused","step":step,"a":act["a"],"why":why}));
    }

    fn step(&mut self, i: usize, act: &Value) {
        let a = act["a"].as_str().unwrap().to_string();
        let n = act["n"].as_u64().unwrap() as usize;
        self.rig
            .rig_event(json!({"t":"rig","k":"Step","step":i,"a":a,"n":n}));
        match a.as_str() {
            "Propose" | "Loopback" | "SyncResume" => {
                self.rig.pump(n);
                if a == "Propose" {
                    self.feed(n);
                }
            }
            "PayloadResume" => {
                let b = match self.resolve(&act["blk"]) {
                    Some(b) => b,
                    None => return self.refuse(i, act, "block does not exist"),
                };
                self.make_available(n, &b);
                self.rig.pump(n);
            }
            "Timer" => self.rig.fire_timer(n),
            "HonestProposal" => {
                let b = match self.resolve(&act["blk"]) {
                    Some(b) => b,
                    None => return self.refuse(i, act, "no honest node proposed this block"),
                };
                let d = b.digest();
                self.make_available(n, &b);
                let f = self.props.iter().find(|(f, x)| f.to == n && x.digest() == d).map(|(f, _)| f.clone());
                match f {
                    Some(f) => {
                        self.rig.deliver(&f, false);
                    }
                    None => {
                        // same block on another connection (sync reply or relay): send a copy
                        self.rig.inject_msg(n, &ConsensusMessage::Propose(b));
                    }
                }
            }
            "RelayedProposal" | "ByzProposal" | "LateProposal" => {
                let mut b = match self.resolve(&act["blk"]) {
                    Some(b) => b,
                    None => return self.refuse(i, act, "block does not exist"),
                };
                if a != "LateProposal" {
                    self.make_available(n, &b);
                }
                b.tc = self.tc_for(&act["tc"]);
                self.rig.inject_msg(n, &ConsensusMessage::Propose(b));
            }
            "HonestVote" => {
                let b = match self.resolve(&act["blk"]) {
                    Some(b) => b,
                    None => return self.refuse(i, act, "voted block does not exist"),
                };
                let author = act["author"].as_u64().unwrap() as usize;
                let pk = self.rig.keys[author].0;
                let d = b.digest();
                let found = self.votes.iter().find(|(_, v)| v.author == pk && v.hash == d).map(|(f, v)| (f.clone(), v.clone()));
                match found {
                    Some((f, v)) => {
                        if f.to == n {
                            self.rig.deliver(&f, false);
                        } else {
                            self.rig.inject_msg(n, &ConsensusMessage::Vote(v));
                        }
                    }
                    None => return self.refuse(i, act, "the honest node did not cast this vote"),
                }
            }
            "ByzVote" => {
                let b = match self.resolve(&act["blk"]) {
                    Some(b) => b,
                    None => return self.refuse(i, act, "voted block does not exist"),
                };
                let author = act["author"].as_u64().unwrap() as usize;
                let v = self.rig.make_vote(author, &b.digest(), b.round);
                self.rig.inject_msg(n, &ConsensusMessage::Vote(v));
            }
            "HonestTimeout" => {
                let author = act["author"].as_u64().unwrap() as usize;
                let round = act["round"].as_u64().unwrap();
                let pk = self.rig.keys[author].0;
                let found = self
                    .timeouts
                    .iter()
                    .find(|(_, t)| t.author == pk && t.round == round)
                    .map(|(f, t)| (f.clone(), t.clone()));
                match found {
                    Some((f, t)) => {
                        if f.to == n {
                            self.rig.deliver(&f, false);
                        } else {
                            self.rig.inject_msg(n, &ConsensusMessage::Timeout(t));
                        }
                    }
                    None => return self.refuse(i, act, "the honest node did not time out in this round"),
                }
            }
            "ByzTimeout" => {
                let author = act["author"].as_u64().unwrap() as usize;
                let round = act["round"].as_u64().unwrap();
                let qc = if Self::is_genesis(&act["hq"]) {
                    QC::genesis()
                } else {
                    match self.resolve(&act["hq"]) {
                        Some(b) => self.qc_for(&b),
                        None => return self.refuse(i, act, "high-QC block does not exist"),
                    }
                };
                let t = self.rig.make_timeout(author, round, qc);
                self.rig.inject_msg(n, &ConsensusMessage::Timeout(t));
            }
            "TC" => match self.tc_for(&act["tc"]) {
                Some(tc) => {
                    self.rig.inject_msg(n, &ConsensusMessage::TC(tc));
                }
                None => return self.refuse(i, act, "no TC"),
            },
            other => {
                self.refuse(i, act, &format!("unknown action {}", other));
                return;
            }
        }
        self.executed += 1;
        self.collect();
    }
}

/// hsverif attack in=<scripts.ndjson> out=<trace> n=4 honest=1,2,3 [stakes=..]
/// each input line: {"acts":[...], ...}
pub fn main(rest: &[String]) -> i32 {
    let a = Args::parse(rest);
    let input = a.str("in", "attacks.ndjson");
    let out = a.str("out", "trace.ndjson");
    let n = a.usize("n", 4);
    let honest = a.list_usize("honest");
    let stakes = a.list_u32("stakes").unwrap_or_else(|| vec![1; n]);
    let tag = a.str("tag", &format!("{}", std::process::id()));
    let text = std::fs::read_to_string(&input).expect("read scripts");
    let mut w = NdWriter::create(&out);
    let mut id_base = 0usize;
    let mut summary = Vec::new();
    let t0 = std::time::Instant::now();
    for line in text.lines().filter(|l| !l.trim().is_empty()).take(a.usize("limit", usize::MAX)) {
        let script: Value = serde_json::from_str(line).expect("script json");
        let acts = script["acts"].as_array().unwrap().clone();
        let mut cfg = RigCfg::new(n);
        cfg.stakes = stakes.clone();
        cfg.real = (0..n).map(|i| honest.contains(&i)).collect();
        cfg.tag = tag.clone();
        w.write(&json!({"t":"reset","n":n,"stakes":stakes,"honest":honest,"leaders":crate::rig::leader_table(&cfg, 128)}));
        let rig = Rig::with_base(cfg, id_base);
        let byz: Vec<usize> = (0..n).filter(|i| !honest.contains(i)).collect();
        let mut world = World {
            rig,
            byz,
            map: HashMap::new(),
            props: Vec::new(),
            votes: Vec::new(),
            timeouts: Vec::new(),
            tcs: Vec::new(),
            acked: Default::default(),
            refused: 0,
            executed: 0,
            payloads: acts.iter().any(|x| matches!(x["a"].as_str(), Some("LateProposal") | Some("PayloadResume"))),
            fed: 0,
        };
        for i in 0..n {
            world.feed(i);
        }
        world.collect();
        for (i, act) in acts.iter().enumerate() {
            world.step(i, act);
        }
        world.collect();
        let mut rig = world.rig;
        for p in rig.panics.drain(..) {
            rig.events.push(json!({"t":"rig","k":"Panic","what":p}));
        }
        for p in crate::util::take_panics() {
            rig.events.push(json!({"t":"rig","k":"Panic","what":p}));
        }
        let commits: Vec<Vec<u64>> = (0..n).map(|i| rig.delivered[i].iter().map(|b| b.round).collect()).collect();
        summary.push(json!({"steps":acts.len(),"executed":world.executed,"refused":world.refused,"commit_rounds":commits}));
        for e in rig.trace_records() {
            w.write(&e);
        }
        id_base = rig.next_id_base();
    }
    w.write(&json!({"t":"end"}));
    let lines = w.lines;
    w.finish();
    let _ = Bytes::new();
    let _ = Port::Consensus;
    println!("{}", json!({"scripts":summary.len(),"runs":summary,"trace_lines":lines,"wall_s":t0.elapsed().as_secs_f64()}));
    0
}
