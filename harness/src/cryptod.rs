//! C18 (signatures, batch verification, key encodings) and C20 (digests bind content, survive round trips).
//! Case matrices come from Crypto.tla / Digests.tla; the quantification over bits, bytes and key values is done here.
#[path = "/repo/node/src/config.rs"]
#[allow(dead_code)]
mod nodeconfig;

use crate::rig::{sha, Rig, RigCfg};
use crate::util::{Args, NdWriter, Rng};
use consensus::verif_export::{ConsensusMessage, Timeout, Vote};
use consensus::{Block, QC, TC};
use crypto::{generate_keypair, Digest, Hash as _, PublicKey, SecretKey, Signature};
use nodeconfig::Export as _;
use rand::rngs::StdRng;
use rand::SeedableRng;
use serde_json::{json, Value};

fn flip(sig: &Signature, bit: usize) -> Option<Signature> {
    let mut bytes = bincode::serialize(sig).ok()?;
    bytes[bit / 8] ^= 1 << (bit % 8);
    bincode::deserialize(&bytes).ok()
}

fn guard<F: FnOnce() -> bool>(f: F) -> (bool, bool) {
    match std::panic::catch_unwind(std::panic::AssertUnwindSafe(f)) {
        Ok(v) => (v, false),
        Err(_) => (false, true),
    }
}

/// hsverif crypto in=<cases.ndjson from Crypto.tla> out=<trace> seed=S reps=R allbits=0|1
pub fn crypto_main(rest: &[String]) -> i32 {
    let a = Args::parse(rest);
    let input = a.str("in", "cases.ndjson");
    let out = a.str("out", "trace.ndjson");
    let seed = a.u64("seed", 1);
    let reps = a.usize("reps", 2);
    let allbits = a.usize("allbits", 0) == 1;
    let nkeys = a.usize("nkeys", 40);
    let mut rng = Rng::new(seed);
    let mut krng = StdRng::seed_from_u64(seed ^ 0xC18);
    let mut w = NdWriter::create(&out);
    w.write(&json!({"t":"reset"}));
    let text = std::fs::read_to_string(&input).expect("read cases");
    let cases: Vec<Value> = text.lines().filter(|l| !l.trim().is_empty()).map(|l| serde_json::from_str(l).unwrap()).collect();
    let mut calls = 0usize;
    let t0 = std::time::Instant::now();
    // ---- batches
    for c in &cases {
        let members = c["members"].as_array().unwrap();
        let sigbits: Vec<usize> = if members.iter().any(|m| m["c"] == "sigbit") {
            // the sample always contains the ends of both halves of the signature (the top bits of `s` make it unparseable)
            if allbits { (0..512).collect() } else { [0usize, 255, 256, 509, 510, 511].iter().cloned().chain((0..reps * 4).map(|_| rng.below(512))).collect() }
        } else if members.iter().any(|m| m["c"] == "keybit") {
            if allbits { (0..256).collect() } else { [0usize, 7, 255].iter().cloned().chain((0..reps * 4).map(|_| rng.below(256))).collect() }
        } else {
            (0..reps).collect()
        };
        for bit in sigbits {
            let d = sha(&[b"c18", &rng.below(1 << 30).to_le_bytes()]);
            let d2 = sha(&[b"c18-other", &rng.below(1 << 30).to_le_bytes()]);
            let keys: Vec<(PublicKey, SecretKey)> = (0..members.len() + 1).map(|_| generate_keypair(&mut krng)).collect();
            let mut votes: Vec<(PublicKey, Signature)> = Vec::new();
            for (j, m) in members.iter().enumerate() {
                let (pk, sk) = (&keys[j].0, &keys[j].1);
                let entry = match m["c"].as_str().unwrap() {
                    "none" => (*pk, Signature::new(&d, sk)),
                    "digest" => (*pk, Signature::new(&d2, sk)),
                    "key" => (keys[members.len()].0, Signature::new(&d, sk)),
                    "sigbit" => match flip(&Signature::new(&d, sk), bit) {
                        Some(s) => (*pk, s),
                        None => (*pk, Signature::default()),
                    },
                    "keybit" => {
                        let mut k = *pk;
                        k.0[(bit / 8) % 32] ^= 1 << (bit % 8);
                        (k, Signature::new(&d, sk))
                    }
                    other => panic!("unknown corruption {}", other),
                };
                votes.push(entry);
            }
            let (batch_ok, p1) = guard(|| Signature::verify_batch(&d, &votes).is_ok());
            let mut each = Vec::new();
            let mut p2 = false;
            for (pk, s) in &votes {
                let (ok, p) = guard(|| s.verify(&d, pk).is_ok());
                each.push(ok);
                p2 |= p;
            }
            calls += 1 + votes.len();
            w.write(&json!({"t":"crypto","kind":"batch","members":members,"bit":bit,"batch_ok":batch_ok,"each_ok":each,"panicked":p1||p2}));
        }
    }
    // ---- single signatures: every bit of the signature, of the digest and of the key
    for r in 0..reps {
        let (pk, sk) = generate_keypair(&mut krng);
        let d = sha(&[b"c18-single", &(r as u64).to_le_bytes()]);
        let s = Signature::new(&d, &sk);
        let (ok, p) = guard(|| s.verify(&d, &pk).is_ok());
        w.write(&json!({"t":"crypto","kind":"single","what":"none","bit":0,"accepted":ok,"panicked":p}));
        let bits: Vec<usize> = if allbits || r == 0 { (0..512).collect() } else { (0..32).map(|_| rng.below(512)).collect() };
        for b in bits {
            let (ok, p) = match flip(&s, b) {
                Some(f) => guard(|| f.verify(&d, &pk).is_ok()),
                None => (false, false),
            };
            calls += 1;
            w.write(&json!({"t":"crypto","kind":"single","what":"sigbit","bit":b,"accepted":ok,"panicked":p}));
        }
        for b in 0..256 {
            let mut dd = d.clone();
            dd.0[b / 8] ^= 1 << (b % 8);
            let (ok, p) = guard(|| s.verify(&dd, &pk).is_ok());
            calls += 1;
            w.write(&json!({"t":"crypto","kind":"single","what":"digestbit","bit":b,"accepted":ok,"panicked":p}));
            let mut kk = pk;
            kk.0[b / 8] ^= 1 << (b % 8);
            let (ok, p) = guard(|| s.verify(&d, &kk).is_ok());
            calls += 1;
            w.write(&json!({"t":"crypto","kind":"single","what":"keybit","bit":b,"accepted":ok,"panicked":p}));
        }
    }
    // ---- encodings
    let dir = a.str("dir", "/tmp");
    for k in 0..nkeys {
        let (pk, sk) = generate_keypair(&mut krng);
        let (ok1, p1) = guard(|| PublicKey::decode_base64(&pk.encode_base64()).map(|x| x == pk).unwrap_or(false));
        let (ok2, p2) = guard(|| {
            SecretKey::decode_base64(&sk.encode_base64())
                .map(|x| x.encode_base64() == sk.encode_base64())
                .unwrap_or(false)
        });
        let (ok3, p3) = guard(|| {
            let s = serde_json::to_string(&pk).unwrap();
            serde_json::from_str::<PublicKey>(&s).map(|x| x == pk).unwrap_or(false)
        });
        let (ok4, p4) = guard(|| {
            let s = serde_json::to_string(&sk).unwrap();
            serde_json::from_str::<SecretKey>(&s).map(|x| x.encode_base64() == sk.encode_base64()).unwrap_or(false)
        });
        // the recovered secret key still signs for the public key
        let (ok5, p5) = guard(|| {
            let sk2 = SecretKey::decode_base64(&sk.encode_base64()).unwrap();
            let d = sha(&[b"c18-rt", &(k as u64).to_le_bytes()]);
            Signature::new(&d, &sk2).verify(&d, &pk).is_ok()
        });
        // key file and committee file of the node
        let path = format!("{}/hsverif_c18_{}_{}.json", dir, std::process::id(), k % 4);
        let _ = std::fs::remove_file(&path);
        let (ok6, p6) = guard(|| {
            let secret = nodeconfig::Secret { name: pk, secret: SecretKey::decode_base64(&sk.encode_base64()).unwrap() };
            secret.write(&path).is_ok()
                && nodeconfig::Secret::read(&path)
                    .map(|x| x.name == pk && x.secret.encode_base64() == sk.encode_base64())
                    .unwrap_or(false)
        });
        let _ = std::fs::remove_file(&path);
        let (ok7, p7) = guard(|| {
            let mut cfg = RigCfg::new(4);
            cfg.real = vec![false; 4];
            cfg.key_seed = (k % 200) as u8;
            let rig = Rig::new(cfg);
            let c = nodeconfig::Committee { consensus: rig.committee.clone(), mempool: rig.mcommittee.clone() };
            c.write(&path).is_ok()
                && nodeconfig::Committee::read(&path)
                    .map(|x| {
                        rig.keys.iter().all(|(p, _)| x.consensus.stake(p) == 1 && x.mempool.stake(p) == 1)
                            && x.consensus.authorities.len() == 4
                            && x.mempool.authorities.len() == 4
                    })
                    .unwrap_or(false)
        });
        let _ = std::fs::remove_file(&path);
        calls += 7;
        for (what, ok, p) in [("pk_base64", ok1, p1), ("sk_base64", ok2, p2), ("pk_json", ok3, p3), ("sk_json", ok4, p4),
                              ("sk_decoded_signs", ok5, p5), ("key_file", ok6, p6), ("committee_file", ok7, p7)] {
            w.write(&json!({"t":"crypto","kind":"roundtrip","what":what,"ok":ok,"panicked":p}));
        }
    }
    w.write(&json!({"t":"end"}));
    let lines = w.lines;
    w.finish();
    println!("{}", json!({"cases":cases.len(),"calls":calls,"trace_lines":lines,"wall_s":t0.elapsed().as_secs_f64()}));
    0
}

// ---------------------------------------------------------------------------------------------------------
// C20

struct Gen {
    rig: Rig,
}

impl Gen {
    fn block(&self, author: usize, round: u64, payload: Vec<Digest>, parent: &Digest, tc: Option<TC>) -> Block {
        let signers: Vec<usize> = (0..self.rig.cfg.n).collect();
        let qc = if *parent == Digest::default() { QC::genesis() } else { self.rig.make_qc(parent, round.saturating_sub(1), &signers) };
        self.rig.make_block(author, round, qc, tc, payload)
    }
}

fn dg(tag: &str, i: u64) -> Digest {
    sha(&[tag.as_bytes(), &i.to_le_bytes()])
}

/// hsverif digests out=<trace> seed=S reps=R
pub fn digests_main(rest: &[String]) -> i32 {
    let a = Args::parse(rest);
    let out = a.str("out", "trace.ndjson");
    let seed = a.u64("seed", 1);
    let reps = a.usize("reps", 20);
    let mut rng = Rng::new(seed);
    let mut cfg = RigCfg::new(4);
    cfg.real = vec![false; 4];
    cfg.key_seed = (seed % 200) as u8;
    let g = Gen { rig: Rig::new(cfg) };
    let mut w = NdWriter::create(&out);
    w.write(&json!({"t":"reset"}));
    let mut n = 0usize;
    let t0 = std::time::Instant::now();
    let mut pair = |w: &mut NdWriter, what: &str, d1: Digest, d2: Digest, n: &mut usize| {
        *n += 1;
        w.write(&json!({"t":"digest","kind":"pair","what":what,"differ": d1 != d2}));
    };
    for r in 0..reps as u64 {
        let round = 2 + rng.below(1 << 20) as u64;
        let (x, y, z) = (dg("x", r), dg("y", r), dg("z", r));
        let au = rng.below(4);
        let base = g.block(au, round, vec![x.clone(), y.clone()], &z, None);
        // one field differs
        pair(&mut w, "block.author", base.digest(), g.block((au + 1) % 4, round, vec![x.clone(), y.clone()], &z, None).digest(), &mut n);
        pair(&mut w, "block.round", base.digest(), g.block(au, round + 1, vec![x.clone(), y.clone()], &z, None).digest(), &mut n);
        pair(&mut w, "block.round_high_byte", base.digest(), g.block(au, round + (1 << 56), vec![x.clone(), y.clone()], &z, None).digest(), &mut n);
        pair(&mut w, "block.payload_element", base.digest(), g.block(au, round, vec![x.clone(), dg("y2", r)], &z, None).digest(), &mut n);
        pair(&mut w, "block.payload_dropped", base.digest(), g.block(au, round, vec![x.clone()], &z, None).digest(), &mut n);
        pair(&mut w, "block.payload_empty", base.digest(), g.block(au, round, vec![], &z, None).digest(), &mut n);
        pair(&mut w, "block.payload_order", base.digest(), g.block(au, round, vec![y.clone(), x.clone()], &z, None).digest(), &mut n);
        pair(&mut w, "block.parent", base.digest(), g.block(au, round, vec![x.clone(), y.clone()], &dg("z2", r), None).digest(), &mut n);
        // boundary between the last payload element and the parent
        pair(&mut w, "block.payload_parent_boundary", g.block(au, round, vec![x.clone()], &y, None).digest(),
             g.block(au, round, vec![], &x, None).digest(), &mut n);
        pair(&mut w, "block.payload_parent_shift", g.block(au, round, vec![x.clone(), y.clone()], &z, None).digest(),
             g.block(au, round, vec![x.clone()], &y, None).digest(), &mut n);
        pair(&mut w, "block.payload_parent_swapped", g.block(au, round, vec![x.clone()], &y, None).digest(),
             g.block(au, round, vec![y.clone()], &x, None).digest(), &mut n);
        // votes / QCs
        let v = g.rig.make_vote(0, &x, round);
        pair(&mut w, "vote.block", v.digest(), g.rig.make_vote(0, &y, round).digest(), &mut n);
        pair(&mut w, "vote.round", v.digest(), g.rig.make_vote(0, &x, round + 1).digest(), &mut n);
        let q = g.rig.make_qc(&x, round, &[0, 1, 2]);
        pair(&mut w, "qc.block", q.digest(), g.rig.make_qc(&y, round, &[0, 1, 2]).digest(), &mut n);
        pair(&mut w, "qc.round", q.digest(), g.rig.make_qc(&x, round + 1, &[0, 1, 2]).digest(), &mut n);
        // timeouts
        let t = g.rig.make_timeout(0, round, g.rig.make_qc(&x, round - 1, &[0, 1, 2]));
        pair(&mut w, "timeout.round", t.digest(), g.rig.make_timeout(0, round + 1, g.rig.make_qc(&x, round - 1, &[0, 1, 2])).digest(), &mut n);
        pair(&mut w, "timeout.high_qc_round", t.digest(), g.rig.make_timeout(0, round, g.rig.make_qc(&x, round - 2, &[0, 1, 2])).digest(), &mut n);
        pair(&mut w, "timeout.round_hqr_swapped", g.rig.make_timeout(0, round, g.rig.make_qc(&x, round - 1, &[0, 1, 2])).digest(),
             g.rig.make_timeout(0, round - 1, g.rig.make_qc(&x, round, &[0, 1, 2])).digest(), &mut n);
        // kinds never coincide (and a signature for one kind does not verify for another)
        let kinds = vec![("block", base.digest()), ("vote", v.digest()), ("timeout", t.digest())];
        for i in 0..kinds.len() {
            for j in (i + 1)..kinds.len() {
                n += 1;
                w.write(&json!({"t":"digest","kind":"cross","what":format!("{}-{}", kinds[i].0, kinds[j].0),"differ": kinds[i].1 != kinds[j].1}));
            }
        }
        let cross_sig = {
            // vote signature presented inside a timeout with the same author and "matching" numbers
            let mut t2 = g.rig.make_timeout(0, round, QC::genesis());
            t2.signature = v.signature.clone();
            let mut v2 = g.rig.make_vote(0, &x, round);
            v2.signature = t.signature.clone();
            let mut b2 = base.clone();
            b2.signature = g.rig.make_vote(au, &base.digest(), round).signature;
            t2.verify(&g.rig.committee).is_err() && v2.verify(&g.rig.committee).is_err() && b2.verify(&g.rig.committee).is_err()
        };
        n += 1;
        w.write(&json!({"t":"digest","kind":"cross","what":"signature_moved_between_kinds_rejected","differ":cross_sig}));
        // round trips: wire format, and the store path used by sync (Core::store_block -> Helper -> Propose)
        let tc = g.rig.make_tc(round - 1, &[(0, 0), (1, 1), (2, 0)]);
        let b = g.block((round % 4) as usize, round, vec![x.clone()], &z, Some(tc.clone()));
        let msgs = vec![
            ("block", ConsensusMessage::Propose(b.clone())),
            ("vote", ConsensusMessage::Vote(v.clone())),
            ("timeout", ConsensusMessage::Timeout(t.clone())),
            ("tc", ConsensusMessage::TC(tc.clone())),
        ];
        for (what, m) in msgs {
            let bytes = bincode::serialize(&m).unwrap();
            let back: Result<ConsensusMessage, _> = bincode::deserialize(&bytes);
            let (same, ver) = match (m, back) {
                (ConsensusMessage::Propose(a), Ok(ConsensusMessage::Propose(b2))) => (a.digest() == b2.digest(), b2.verify(&g.rig.committee).is_ok()),
                (ConsensusMessage::Vote(a), Ok(ConsensusMessage::Vote(b2))) => (a.digest() == b2.digest(), b2.verify(&g.rig.committee).is_ok()),
                (ConsensusMessage::Timeout(a), Ok(ConsensusMessage::Timeout(b2))) => (a.digest() == b2.digest(), b2.verify(&g.rig.committee).is_ok()),
                (ConsensusMessage::TC(a), Ok(ConsensusMessage::TC(b2))) => (a.round == b2.round && a.high_qc_rounds() == b2.high_qc_rounds(), b2.verify(&g.rig.committee).is_ok()),
                _ => (false, false),
            };
            n += 1;
            w.write(&json!({"t":"digest","kind":"roundtrip","what":format!("wire.{}", what),"same_digest":same,"verifies":ver}));
        }
        // store path: value = bincode(block) under key digest, read back and re-wrapped as the helper does
        let stored = bincode::serialize(&b).unwrap();
        let back: Result<Block, _> = bincode::deserialize(&stored);
        let (same, ver) = match back {
            Ok(b2) => {
                let again = bincode::serialize(&ConsensusMessage::Propose(b2)).unwrap();
                match bincode::deserialize::<ConsensusMessage>(&again) {
                    Ok(ConsensusMessage::Propose(b3)) => (b3.digest() == b.digest() && b3.qc.hash == b.qc.hash, b3.verify(&g.rig.committee).is_ok()),
                    _ => (false, false),
                }
            }
            Err(_) => (false, false),
        };
        n += 1;
        w.write(&json!({"t":"digest","kind":"roundtrip","what":"store.block","same_digest":same,"verifies":ver}));
        // layout conformance (a differing layout is a divergence, not a violation: the property does not prescribe it)
        let mut parts: Vec<Vec<u8>> = vec![b.author.0.to_vec(), b.round.to_le_bytes().to_vec()];
        for d in &b.payload {
            parts.push(d.0.to_vec());
        }
        parts.push(b.qc.hash.0.to_vec());
        let refs: Vec<&[u8]> = parts.iter().map(|x| &x[..]).collect();
        let lay = sha(&refs) == b.digest()
            && sha(&[&v.hash.0, &v.round.to_le_bytes()]) == v.digest()
            && sha(&[&t.round.to_le_bytes(), &t.high_qc.round.to_le_bytes()]) == t.digest();
        w.write(&json!({"t":"digest","kind":"layout","what":"spec layout","match":lay}));
    }
    // The universe of Digests.tla instantiated with real messages: abstract digest/key values 0..4 become 32-byte values of which 0 is the
    // all-zero digest (the hash of QC::genesis()) and 1, 2 are the key bytes of two authorities -- so that a field can coincide with a
    // neighbouring field of another kind, as in the model where keys and digests share one domain.  Every two distinct messages of the
    // universe (blocks, votes, timeouts) must have distinct digests.
    {
        let val = |i: usize| -> Digest {
            match i {
                0 => Digest::default(),
                1 => Digest(g.rig.keys[0].0 .0),
                2 => Digest(g.rig.keys[1].0 .0),
                _ => dg("universe", i as u64),
            }
        };
        let nv = 5usize;
        let mut payloads: Vec<Vec<usize>> = vec![vec![]];
        for a in 0..nv {
            payloads.push(vec![a]);
            for b in 0..nv {
                payloads.push(vec![a, b]);
            }
        }
        let mut all: Vec<(String, Digest)> = Vec::new();
        for author in 0..2usize {
            for round in 0..2u64 {
                for pl in &payloads {
                    for parent in 0..nv {
                        // parent value 0 with QC round 0 and no votes IS QC::genesis()
                        let qc = QC { hash: val(parent), round: 0, votes: Vec::new() };
                        let b = Block {
                            qc,
                            tc: None,
                            author: g.rig.keys[author].0,
                            round,
                            payload: pl.iter().map(|x| val(*x)).collect(),
                            signature: crypto::Signature::default(),
                        };
                        all.push((format!("block(author={},round={},payload={:?},parent={})", author, round, pl, parent), b.digest()));
                    }
                }
            }
        }
        for h in 0..nv {
            for round in 0..2u64 {
                let v = Vote { hash: val(h), round, author: g.rig.keys[0].0, signature: crypto::Signature::default() };
                all.push((format!("vote(hash={},round={})", h, round), v.digest()));
            }
        }
        for round in 0..2u64 {
            for hqr in 0..2u64 {
                let t = Timeout {
                    high_qc: QC { hash: Digest::default(), round: hqr, votes: Vec::new() },
                    round,
                    author: g.rig.keys[0].0,
                    signature: crypto::Signature::default(),
                };
                all.push((format!("timeout(round={},hqr={})", round, hqr), t.digest()));
            }
        }
        let mut seen: std::collections::HashMap<Digest, String> = std::collections::HashMap::new();
        let mut collisions: Vec<Value> = Vec::new();
        for (what, d) in &all {
            if let Some(prev) = seen.get(d) {
                if collisions.len() < 5 {
                    collisions.push(json!([prev, what]));
                }
            } else {
                seen.insert(d.clone(), what.clone());
            }
        }
        n += all.len();
        w.write(&json!({"t":"digest","kind":"universe","what":"Digests.tla universe instantiated","messages":all.len(),"distinct":seen.len(),"collisions":collisions}));
    }
    let _ = Vote::verify;
    let _ = Timeout::verify;
    w.write(&json!({"t":"end"}));
    let lines = w.lines;
    w.finish();
    println!("{}", json!({"checks":n,"trace_lines":lines,"wall_s":t0.elapsed().as_secs_f64()}));
    0
}
