//! The "fetch what is missing" subsystem of one node (spec/Fetch.tla): the real consensus Synchronizer + Helper,
//! MempoolDriver + PayloadWaiter and mempool Synchronizer + Helper, wired on one store as consensus.rs / mempool.rs do,
//! driven by TLC-generated schedules of their entry points.  The harness is the caller (core), the store writer
//! (core / processor), the clock and the peers; it records what each move returned and caused.
use crate::rig::{addr, port_of, sha, Port, Rig, RigCfg};
use crate::util::{Args, NdWriter};
use consensus::verif_export::{ConsensusMessage, Helper as CHelper, MempoolDriver, Synchronizer as CSync};
use consensus::{Block, QC};
use crypto::{Digest, Hash as _, PublicKey};
use futures::{FutureExt, StreamExt};
use mempool::verif_export::{Helper as MHelper, MempoolMessage, Synchronizer as MSync};
use mempool::ConsensusMempoolMessage;
use network::simnet;
use serde_json::{json, Value};
use std::collections::HashMap;
use std::time::Duration;
use store::Store;
use tokio::sync::mpsc::channel;
use tokio_util::codec::{Framed, LengthDelimitedCodec};

async fn settle() {
    for _ in 0..120 {
        tokio::task::yield_now().await;
    }
}

pub struct Universe {
    pub par: Vec<usize>,
    pub auth: Vec<usize>,
    pub pay: Vec<Vec<usize>>,
    pub rnd: Vec<u64>,
    pub batches: Vec<usize>,
    pub peers: Vec<usize>,
}

impl Universe {
    fn from_json(v: &Value) -> Self {
        let us = |x: &Value| x.as_array().unwrap().iter().map(|y| y.as_u64().unwrap() as usize).collect::<Vec<_>>();
        Universe {
            par: us(&v["par"]),
            auth: us(&v["auth"]),
            pay: v["pay"].as_array().unwrap().iter().map(us).collect(),
            rnd: us(&v["rnd"]).into_iter().map(|x| x as u64).collect(),
            batches: us(&v["batches"]),
            peers: us(&v["peers"]),
        }
    }
}

struct Params {
    b_retry: u64,
    m_retry: u64,
    retry_nodes: usize,
    gc_depth: u64,
}

fn batch_value(k: usize) -> Vec<u8> {
    bincode::serialize(&MempoolMessage::Batch(vec![format!("transaction-of-batch-{}", k).into_bytes()])).unwrap()
}

async fn run_fetch(beh: &[Value], u: &Universe, p: &Params, store_path: &str, recs: &mut Vec<Value>) {
    let n = u.peers.iter().max().cloned().unwrap_or(0) + 1;
    let mut cfg = RigCfg::new(n);
    cfg.real = vec![false; n];
    let rig = Rig::new(cfg);
    simnet::set_current(0);
    let _ = std::fs::remove_dir_all(store_path);
    let mut store = Store::new(store_path).expect("store");
    let name = rig.keys[0].0;

    // the universe as real values
    let batch_key: HashMap<usize, Digest> = u.batches.iter().map(|k| (*k, sha(&[&batch_value(*k)]))).collect();
    let mut blocks: Vec<Block> = vec![Block::genesis()];
    for i in 1..=u.par.len() {
        let parent = u.par[i - 1];
        assert!(parent < i, "parents must precede their children");
        let qc = if parent == 0 { QC::genesis() } else { rig.make_qc(&blocks[parent].digest(), blocks[parent].round, &[0, 1, 2]) };
        let payload = u.pay[i - 1].iter().map(|k| batch_key[k].clone()).collect();
        blocks.push(rig.make_block(u.auth[i - 1], u.rnd[i - 1], qc, None, payload));
    }
    let mut id_of: HashMap<Digest, usize> = HashMap::new();
    for (i, b) in blocks.iter().enumerate().skip(1) {
        id_of.insert(b.digest(), i);
    }
    for (k, d) in &batch_key {
        id_of.insert(d.clone(), *k);
    }
    let key_of = |k: usize| -> Digest { if k < blocks.len() { blocks[k].digest() } else { batch_key[&k].clone() } };
    let value_of = |k: usize| -> Vec<u8> { if k < blocks.len() { bincode::serialize(&blocks[k]).unwrap() } else { batch_value(k) } };
    let idx_of = |pk: &PublicKey| rig.keys.iter().position(|(k, _)| k == pk).unwrap_or(99);

    // the subsystem, wired as Consensus::spawn / Mempool::spawn wire it
    let (tx_loop_b, mut rx_loop_b) = channel::<Block>(1000);
    let (tx_loop_p, mut rx_loop_p) = channel::<Block>(1000);
    let mut sync = CSync::new(name, rig.committee.clone(), store.clone(), tx_loop_b, p.b_retry);
    let (tx_creq, rx_creq) = channel::<(Digest, PublicKey)>(1000);
    CHelper::spawn(rig.committee.clone(), store.clone(), rx_creq);
    let (tx_mempool, rx_mempool) = channel::<ConsensusMempoolMessage>(1000);
    let mut driver = MempoolDriver::new(store.clone(), tx_mempool, tx_loop_p);
    MSync::spawn(name, rig.mcommittee.clone(), store.clone(), p.gc_depth, p.m_retry, p.retry_nodes, rx_mempool);
    let (tx_mreq, rx_mreq) = channel::<(Vec<Digest>, PublicKey)>(1000);
    MHelper::spawn(rig.mcommittee.clone(), store.clone(), rx_mreq);
    settle().await;

    let mut conns: Vec<(std::net::SocketAddr, Framed<tokio::io::DuplexStream, LengthDelimitedCodec>)> = Vec::new();
    // the schedule, then a quiet suffix of 200 s in which nothing is answered: whatever is still outstanding must be re-requested elsewhere.
    // Time never jumps over a timer deadline (as in Fetch.tla): the suffix advances from deadline to deadline of the two retry timers.
    let mut moves: Vec<Value> = beh.to_vec();
    {
        let (mut bleft, mut mleft) = (5000u64, 1000u64);
        let mut pass = |ms: u64, bleft: &mut u64, mleft: &mut u64| {
            *bleft = if ms >= *bleft { 5000 } else { *bleft - ms };
            *mleft = if ms >= *mleft { 1000 } else { *mleft - ms };
        };
        for act in beh.iter() {
            if act["a"] == "advance" {
                pass(act["ms"].as_u64().unwrap(), &mut bleft, &mut mleft);
            }
        }
        let mut total = 0u64;
        while total < 200_000 {
            let step = bleft.min(mleft);
            moves.push(json!({"a":"advance","ms":step}));
            pass(step, &mut bleft, &mut mleft);
            total += step;
        }
    }
    for act in moves.iter() {
        let a = act["a"].as_str().unwrap();
        let us = |k: &str| act[k].as_u64().unwrap() as usize;
        let mut res = "done".to_string();
        match a {
            "ask" => {
                res = match sync.get_parent_block(&blocks[us("b")]).await {
                    Ok(Some(_)) => "have".into(),
                    Ok(None) => "missing".into(),
                    Err(e) => format!("error: {}", e),
                };
            }
            "verify" => {
                res = match driver.verify(blocks[us("b")].clone()).await {
                    Ok(true) => "ok".into(),
                    Ok(false) => "wait".into(),
                    Err(e) => format!("error: {}", e),
                };
            }
            "cleanup" => driver.cleanup(us("r") as u64).await,
            "write" => store.write(key_of(us("key")).to_vec(), value_of(us("key"))).await,
            "advance" => {
                tokio::time::advance(Duration::from_millis(us("ms") as u64)).await;
            }
            "breqin" => {
                let _ = tx_creq.send((key_of(us("d")), rig.keys[us("p")].0)).await;
            }
            "mreqin" => {
                let ds = act["ds"].as_array().unwrap().iter().map(|x| key_of(x.as_u64().unwrap() as usize)).collect();
                let _ = tx_mreq.send((ds, rig.keys[us("p")].0)).await;
            }
            other => panic!("unknown move {}", other),
        }
        settle().await;
        settle().await;
        let mut out: Vec<Value> = Vec::new();
        for ic in simnet::take_intercepted() {
            conns.push((ic.dest, Framed::new(ic.stream, LengthDelimitedCodec::new())));
        }
        for (dest, c) in conns.iter_mut() {
            let (to, port) = port_of(dest);
            while let Some(Some(Ok(f))) = c.next().now_or_never() {
                let o = match port {
                    Port::Consensus => match bincode::deserialize::<ConsensusMessage>(&f) {
                        Ok(ConsensusMessage::SyncRequest(d, origin)) if origin == name => {
                            json!({"k":"breq","d":id_of.get(&d).cloned().map(|x| x as i64).unwrap_or(-1),"to":to})
                        }
                        Ok(ConsensusMessage::Propose(b)) => {
                            // "exactly the block they stored": the frame must carry the stored bytes of that key
                            let id = id_of.get(&b.digest()).cloned().unwrap_or(0);
                            let same = id > 0 && id < blocks.len() && bincode::serialize(&b).unwrap() == value_of(id);
                            if same { json!({"k":"brep","d":id,"to":to}) } else { json!({"k":"unknown","to":to}) }
                        }
                        _ => json!({"k":"unknown","to":to}),
                    },
                    Port::Mempool => match bincode::deserialize::<MempoolMessage>(&f) {
                        Ok(MempoolMessage::BatchRequest(ds, origin)) if origin == name => {
                            let mut ids: Vec<i64> = ds.iter().map(|d| id_of.get(d).cloned().map(|x| x as i64).unwrap_or(-1)).collect();
                            ids.sort();
                            json!({"k":"mreq","ds":ids,"to":to})
                        }
                        _ => {
                            let hit = id_of.values().find(|k| value_of(**k)[..] == f[..]).cloned();
                            match hit {
                                Some(k) => json!({"k":"mrep","d":k,"to":to}),
                                None => json!({"k":"unknown","to":to}),
                            }
                        }
                    },
                    Port::Tx => json!({"k":"unknown","to":to}),
                };
                out.push(o);
            }
        }
        while let Ok(b) = rx_loop_b.try_recv() {
            out.push(json!({"k":"resume","b":id_of.get(&b.digest()).cloned().map(|x| x as i64).unwrap_or(-1)}));
        }
        while let Ok(b) = rx_loop_p.try_recv() {
            out.push(json!({"k":"presume","b":id_of.get(&b.digest()).cloned().map(|x| x as i64).unwrap_or(-1)}));
        }
        let mut r = json!({"t":"fx","mv":act,"res":res,"out":out});
        let panics = crate::util::take_panics();
        if !panics.is_empty() {
            r["panic"] = json!(panics);
        }
        recs.push(r);
    }
    let _ = idx_of;
    let _ = addr;
}

/// hsverif fetch in=<schedules> out=<trace> universe=<json file> [b_retry=0 m_retry=0 retry_nodes=3 gc_depth=2]
pub fn main(rest: &[String]) -> i32 {
    let a = Args::parse(rest);
    let input = a.str("in", "schedules.ndjson");
    let out = a.str("out", "trace.ndjson");
    let uv: Value = serde_json::from_str(&std::fs::read_to_string(a.str("universe", "universe.json")).expect("universe file")).expect("universe json");
    let u = Universe::from_json(&uv);
    let p = Params { b_retry: a.u64("b_retry", 0), m_retry: a.u64("m_retry", 0), retry_nodes: a.usize("retry_nodes", 3), gc_depth: a.u64("gc_depth", 2) };
    let tag = a.str("tag", &format!("{}", std::process::id()));
    let base = if std::path::Path::new("/dev/shm").exists() { "/dev/shm".to_string() } else { std::env::temp_dir().to_string_lossy().to_string() };
    let text = std::fs::read_to_string(&input).expect("read schedules");
    let mut w = NdWriter::create(&out);
    let (mut n, mut moves) = (0usize, 0usize);
    let t0 = std::time::Instant::now();
    let mut first = true;
    for line in text.lines().filter(|l| !l.trim().is_empty()).take(a.usize("limit", usize::MAX)) {
        let beh: Vec<Value> = serde_json::from_str(line).expect("schedule json");
        let rt = tokio::runtime::Builder::new_current_thread().enable_all().start_paused(true).build().unwrap();
        let mut recs = Vec::new();
        let path = format!("{}/hsverif_fx_{}_{}", base, tag, n % 4);
        let r = std::panic::catch_unwind(std::panic::AssertUnwindSafe(|| rt.block_on(run_fetch(&beh, &u, &p, &path, &mut recs))));
        drop(rt);
        let _ = std::fs::remove_dir_all(&path);
        if first {
            let mut h = uv.clone();
            h["t"] = json!("reset");
            h["nb"] = json!(u.par.len());
            h["block_timer"] = json!(5000);
            h["batch_timer"] = json!(1000);
            h["b_retry_delay"] = json!(p.b_retry);
            h["m_retry_delay"] = json!(p.m_retry);
            h["retry_nodes"] = json!(p.retry_nodes);
            h["gc_depth"] = json!(p.gc_depth);
            w.write(&h);
            first = false;
        } else {
            w.write(&json!({"t":"reset"}));
        }
        if r.is_err() {
            let done = recs.len();
            if done < beh.len() {
                recs.push(json!({"t":"fx","mv":beh[done],"res":"panic","out":[],"panic":crate::util::take_panics()}));
            }
        }
        for e in recs {
            w.write(&e);
        }
        n += 1;
        moves += beh.len();
    }
    w.write(&json!({"t":"end"}));
    let lines = w.lines;
    w.finish();
    println!("{}", json!({"schedules":n,"moves":moves,"trace_lines":lines,"wall_s":t0.elapsed().as_secs_f64()}));
    0
}
