//! Scenario runs of full nodes (real Mempool + Consensus on one store per node, wired as node/src/node.rs does)
//! under a synchronous-tick network owned by the harness: every tick all node clocks advance by `dt` and every frame
//! written in the previous tick is delivered (one tick of latency), except where the scenario says otherwise
//! (crashes, isolation intervals, withheld batch broadcasts, unresponsive sync targets, asynchronous prefix).
//! Used for C06 (liveness with crashes), C07 (catch-up of a lagging node), C08 (data availability), C13 (end to end).
use crate::multi::kind_of;
use crate::rig::{Frame, Port, Rig, RigCfg};
use crate::util::{Args, NdWriter, Rng};
use bytes::Bytes;
use consensus::verif_export::ConsensusMessage;
use crypto::Hash as _;
use mempool::verif_export::MempoolMessage;
use serde_json::{json, Value};
use std::collections::{BTreeMap, HashSet};

pub struct Scenario {
    pub n: usize,
    pub stakes: Vec<u32>,
    pub with_mempool: bool,
    pub ticks: usize,
    pub dt: u64,
    pub timeout_delay: u64,
    pub crash: Vec<(usize, usize)>,            // (node, tick)
    pub isolate: Option<(usize, usize, usize)>, // (node, from tick, to tick)
    pub async_until: usize,                     // before this tick frames are delayed/reordered at random (never lost)
    pub txs: Vec<(usize, usize, usize)>,        // (tick, node, size)
    pub withhold_batches_to: Option<usize>,     // this node never receives batch broadcasts (it must fetch them)
    pub drop_first_sync_request: bool,          // the first SyncRequest / BatchRequest of every node is lost
    pub seed: u64,
    pub latency: usize,                         // ticks between a frame being written and its delivery (after the asynchronous prefix)
    pub late_to: Option<usize>,                 // during the asynchronous prefix every proposal to this node is held back (delayed, not lost)
}

pub struct Outcome {
    pub rig: Rig,
    pub submitted: Vec<Vec<u8>>,
    pub commit_ticks: Vec<Vec<(usize, u64)>>, // per node: (tick, round) of every commit
    pub timer_fires: usize,
    pub frames: usize,
    pub dropped: usize,
    pub helper_replies_checked: usize,
    pub helper_replies_bad: usize,
}

fn is_batch(f: &Frame) -> bool {
    f.port == Port::Mempool && matches!(bincode::deserialize::<MempoolMessage>(&f.data), Ok(MempoolMessage::Batch(_)))
}

fn is_batch_request(f: &Frame) -> bool {
    f.port == Port::Mempool && matches!(bincode::deserialize::<MempoolMessage>(&f.data), Ok(MempoolMessage::BatchRequest(..)))
}

pub fn run(sc: &Scenario, id_base: usize, tag: &str) -> Outcome {
    let mut cfg = RigCfg::new(sc.n);
    cfg.stakes = sc.stakes.clone();
    cfg.with_mempool = sc.with_mempool;
    cfg.timeout_delay = sc.timeout_delay;
    cfg.sync_retry_delay = 0;
    cfg.batch_size = 64;
    cfg.max_batch_delay = 2 * sc.dt;
    cfg.key_seed = (sc.seed % 200) as u8;
    cfg.tag = tag.to_string();
    let mut rig = Rig::with_base(cfg, id_base);
    let mut rng = Rng::new(sc.seed);
    let mut pool: Vec<(usize, Frame)> = Vec::new(); // (tick written, frame)
    let mut delayed: Vec<Frame> = Vec::new();
    let mut submitted: Vec<Vec<u8>> = Vec::new();
    let mut commit_ticks: Vec<Vec<(usize, u64)>> = vec![Vec::new(); sc.n];
    let (mut timer_fires, mut frames_n, mut dropped, mut helper_replies_checked, mut helper_replies_bad) = (0usize, 0usize, 0usize, 0usize, 0usize);
    let mut first_sync_dropped: HashSet<usize> = HashSet::new();
    let mut requested: Vec<(usize, crypto::Digest)> = Vec::new(); // (requester, digest) of SyncRequests seen
    let mut seen_commits = vec![0usize; sc.n];
    let mut withheld: HashSet<crypto::Digest> = HashSet::new();
    // nodes that are unreachable right now (crashed or isolated): connections are cut and new attempts refused
    let down: std::sync::Arc<std::sync::Mutex<HashSet<usize>>> = Default::default();
    {
        let d2 = down.clone();
        network::simnet::set_refuse(Box::new(move |origin, addr| {
            let d = d2.lock().unwrap();
            d.contains(&origin) || d.contains(&crate::rig::port_of(&addr).0)
        }));
    }
    for t in 0..sc.ticks {
        for (node, at) in &sc.crash {
            if *at == t && rig.is_real(*node) {
                rig.crash(*node);
                rig.cut_node(*node);
                down.lock().unwrap().insert(*node);
            }
        }
        if let Some((node, from, to)) = sc.isolate {
            if t == from {
                rig.rig_event(json!({"t":"rig","k":"Isolate","node":node,"tick":t}));
                rig.cut_node(node);
                down.lock().unwrap().insert(node);
            }
            if t == to {
                rig.rig_event(json!({"t":"rig","k":"Reconnect","node":node,"tick":t}));
                down.lock().unwrap().remove(&node);
            }
        }
        for (at, node, size) in &sc.txs {
            if *at == t && rig.is_real(*node) {
                let k = submitted.len() + 1;
                let mut tx = vec![1u8; (*size).max(9)];
                tx[1..9].copy_from_slice(&(k as u64).to_be_bytes());
                submitted.push(tx.clone());
                rig.rig_event(json!({"t":"rig","k":"Submit","node":node,"tx":k,"tick":t}));
                rig.inject_bytes(*node, Port::Tx, Bytes::from(tx));
            }
        }
        for i in 0..sc.n {
            if rig.is_real(i) {
                let before = rig.events.len();
                rig.advance(i, sc.dt);
                timer_fires += rig.events[before..].iter().filter(|e| e["t"] == "core" && e["k"] == "Timer").count();
            }
        }
        pool.extend(rig.take_frames().into_iter().map(|f| (t, f)));
        let mut now: Vec<Frame> = Vec::new();
        if t < sc.async_until {
            // asynchronous prefix: each frame is delivered now with probability 1/2, otherwise later (never lost)
            let mut keep = Vec::new();
            for f in pool.drain(..).map(|(_, f)| f).chain(delayed.drain(..)) {
                let held = sc.late_to == Some(f.to)
                    && f.port == Port::Consensus
                    && matches!(bincode::deserialize::<ConsensusMessage>(&f.data), Ok(ConsensusMessage::Propose(_)));
                if !held && rng.chance(0.5) {
                    now.push(f);
                } else {
                    keep.push(f);
                }
            }
            delayed = keep;
            if rng.chance(0.5) {
                now.reverse();
            }
        } else {
            now.extend(delayed.drain(..));
            let mut later = Vec::new();
            for (born, f) in pool.drain(..) {
                if born + sc.latency <= t + 1 {
                    now.push(f);
                } else {
                    later.push((born, f));
                }
            }
            pool = later;
        }
        for f in now {
            let isolated = |x: usize| matches!(sc.isolate, Some((node, from, to)) if node == x && t >= from && t < to);
            if !rig.is_real(f.to) || isolated(f.to) || isolated(f.from) {
                dropped += 1;
                // a cut connection: the sender's transport learns nothing
                continue;
            }
            if sc.withhold_batches_to == Some(f.to) && is_batch(&f) && withheld.insert(crate::rig::sha(&[&f.data])) {
                // the broadcast of this batch (its first copy) never reaches this node; later copies are answers to its
                // own batch requests.  The creator's QuorumWaiter still gets a quorum of ACKs from the others.
                dropped += 1;
                continue;
            }
            if sc.drop_first_sync_request {
                let is_sync = matches!(Rig::decode(&f), Some(ConsensusMessage::SyncRequest(..))) || is_batch_request(&f);
                if is_sync && first_sync_dropped.insert(f.from) {
                    rig.rig_event(json!({"t":"rig","k":"DropFirstSync","from":f.from,"to":f.to}));
                    dropped += 1;
                    continue;
                }
            }
            // what helpers send back must be the block stored under the requested digest (C07)
            match Rig::decode(&f) {
                Some(ConsensusMessage::SyncRequest(d, _)) => requested.push((f.from, d)),
                Some(ConsensusMessage::Propose(b)) => {
                    if rig.idx_of(&b.author) != f.from as i64 {
                        // a block relayed by somebody who is not its author: a helper's reply
                        helper_replies_checked += 1;
                        let d = b.digest();
                        if !requested.iter().any(|(who, want)| *who == f.to && *want == d) {
                            helper_replies_bad += 1;
                            rig.rig_event(json!({"t":"rig","k":"BadHelperReply","from":f.from,"to":f.to}));
                        }
                    }
                }
                _ => (),
            }
            if f.port == Port::Consensus {
                rig.rig_event(json!({"t":"rig","k":"Deliver","from":f.from,"to":f.to,"kind":kind_of(&f),"tick":t}));
            }
            rig.deliver(&f, true);
            frames_n += 1;
        }
        for i in 0..sc.n {
            while seen_commits[i] < rig.delivered[i].len() {
                let r = rig.delivered[i][seen_commits[i]].round;
                commit_ticks[i].push((t, r));
                seen_commits[i] += 1;
            }
        }
    }
    for i in 0..sc.n {
        rig.pump(i);
    }
    for p in rig.panics.drain(..).collect::<Vec<_>>() {
        rig.events.push(json!({"t":"rig","k":"Panic","what":p}));
    }
    for p in crate::util::take_panics() {
        rig.events.push(json!({"t":"rig","k":"Panic","what":p}));
    }
    Outcome {
        rig,
        submitted,
        commit_ticks,
        timer_fires,
        frames: frames_n,
        dropped,
        helper_replies_checked,
        helper_replies_bad,
    }
}

/// After a run with mempools: which submitted transactions are in committed blocks, readable from each node's store
pub fn committed_transactions(o: &mut Outcome, node: usize) -> (usize, usize, usize) {
    let mut found: HashSet<Vec<u8>> = HashSet::new();
    let mut unreadable = 0usize;
    let blocks: Vec<consensus::Block> = o.rig.delivered[node].clone();
    let mut digests = 0usize;
    for b in blocks {
        for d in &b.payload {
            digests += 1;
            match o.rig.store_read(node, d.to_vec()) {
                Some(bytes) => {
                    if let Ok(MempoolMessage::Batch(txs)) = bincode::deserialize::<MempoolMessage>(&bytes) {
                        for tx in txs {
                            found.insert(tx);
                        }
                    }
                    // the stored value is addressed by the hash of exactly these bytes
                    if crate::rig::sha(&[&bytes]) != *d {
                        unreadable += 1;
                    }
                }
                None => unreadable += 1,
            }
        }
    }
    let have = o.submitted.iter().filter(|t| found.contains(*t)).count();
    (have, digests, unreadable)
}

fn scenario_from(a: &Args, kind: &str, seed: u64) -> Scenario {
    let mut rng = Rng::new(seed ^ 0x5EED);
    let n = a.usize("n", 4 + rng.below(if kind == "live" { 4 } else { 1 }));
    let stakes = a.list_u32("stakes").unwrap_or_else(|| vec![1; n]);
    let total: u32 = stakes.iter().sum();
    let f = ((total - 1) / 3) as usize;
    let mut sc = Scenario {
        n,
        stakes,
        with_mempool: kind == "e2e" || kind == "avail",
        ticks: a.usize("ticks", 150),
        dt: 50,
        timeout_delay: 1_000,
        crash: Vec::new(),
        isolate: None,
        async_until: 0,
        txs: Vec::new(),
        withhold_batches_to: None,
        drop_first_sync_request: false,
        seed,
        latency: a.usize("latency", if kind == "live" || kind == "lag" { 3 } else { 2 }),
        late_to: None,
    };
    match kind {
        "live" => {
            // up to f crashed authorities (stake 1 each here), crash instants anywhere in the first rounds, asynchronous prefix
            let k = rng.below(f + 1);
            let mut nodes: Vec<usize> = (0..n).collect();
            for _ in 0..k {
                let x = nodes.remove(rng.below(nodes.len()));
                sc.crash.push((x, rng.below(40)));
            }
            sc.async_until = rng.below(40);
            // in half of the runs one live node receives no proposal at all before the network stabilises -- for longer than a round timeout,
            // so it times out of rounds whose blocks it has not seen and gets them afterwards ("delayed arbitrarily but not lost")
            if rng.chance(0.5) && !nodes.is_empty() {
                sc.late_to = Some(nodes[rng.below(nodes.len())]);
                sc.async_until = 24 + rng.below(24);
            }
            sc.ticks = a.usize("ticks", 220);
        }
        "lag" => {
            let x = rng.below(n);
            let from = 6 + rng.below(30);
            let len = 20 + rng.below(70);
            sc.isolate = Some((x, from, from + len));
            sc.drop_first_sync_request = rng.chance(0.5);
            // an unanswered request is retried by the synchronizer's 5 s timer (100 ticks); a node that becomes leader right
            // after reconnecting asks ITSELF for the parent of its own proposal first, so the retry is needed often
            sc.ticks = from + len + 200;
        }
        "e2e" | "avail" => {
            let ntx = 6 + rng.below(14);
            for _ in 0..ntx {
                sc.txs.push((3 + rng.below(sc.ticks / 2), rng.below(n), 10 + rng.below(60)));
            }
            if kind == "avail" || rng.chance(0.5) {
                sc.withhold_batches_to = Some(rng.below(n));
            }
            sc.drop_first_sync_request = rng.chance(0.5);
        }
        _ => (),
    }
    sc
}

/// hsverif full kind=live|lag|e2e|avail runs=R seed=S out=<trace> [n=..] [ticks=..]
pub fn main(rest: &[String]) -> i32 {
    let a = Args::parse(rest);
    let kind = a.str("kind", "live");
    let runs = a.usize("runs", 1);
    let seed = a.u64("seed", 1);
    let out = a.str("out", "trace.ndjson");
    let tag = a.str("tag", &format!("{}", std::process::id()));
    let mut w = NdWriter::create(&out);
    let mut id_base = 0usize;
    let mut summaries: Vec<Value> = Vec::new();
    let t0 = std::time::Instant::now();
    for r in 0..runs {
        let sc = scenario_from(&a, &kind, seed.wrapping_mul(7919).wrapping_add(r as u64));
        let honest: Vec<usize> = (0..sc.n).collect();
        let lt = {
            let mut c = crate::rig::RigCfg::new(sc.n);
            c.stakes = sc.stakes.clone();
            c.key_seed = (sc.seed % 200) as u8;
            crate::rig::leader_table(&c, 256)
        };
        w.write(&json!({"t":"reset","n":sc.n,"stakes":sc.stakes,"honest":honest,"seed":sc.seed,"kind":kind,"leaders":lt}));
        let mut o = run(&sc, id_base, &tag);
        let crashed: Vec<usize> = sc.crash.iter().map(|(x, _)| *x).collect();
        let live: Vec<usize> = (0..sc.n).filter(|i| !crashed.contains(i)).collect();
        // liveness bookkeeping: longest gap (in ticks) between commits of a live node after stabilisation
        let stable_from = sc.async_until.max(sc.crash.iter().map(|(_, t)| *t).max().unwrap_or(0)).max(sc.isolate.map(|(_, _, to)| to).unwrap_or(0));
        let mut per_node: BTreeMap<String, Value> = BTreeMap::new();
        for i in &live {
            let ticks: Vec<usize> = o.commit_ticks[*i].iter().map(|(t, _)| *t).filter(|t| *t >= stable_from).collect();
            let mut gap = 0usize;
            let mut last = stable_from;
            for t in ticks.iter().chain(std::iter::once(&sc.ticks)) {
                gap = gap.max(t - last);
                last = *t;
            }
            let last_round = o.commit_ticks[*i].last().map(|(_, r)| *r).unwrap_or(0);
            per_node.insert(i.to_string(), json!({"commits": o.commit_ticks[*i].len(), "last_round": last_round, "max_gap_ticks": gap}));
        }
        let mut e2e = json!({"none":true});
        if sc.with_mempool {
            let mut res = BTreeMap::new();
            for i in &live {
                let (have, digests, unreadable) = committed_transactions(&mut o, *i);
                res.insert(i.to_string(), json!({"submitted_committed": have, "committed_digests": digests, "unreadable": unreadable}));
            }
            e2e = json!(res);
        }
        let summary = json!({"t":"summary","kind":kind,"n":sc.n,"crash":sc.crash,"isolate":sc.isolate.map(|(a,b,c)| vec![a,b,c]).unwrap_or_default(),"async_until":sc.async_until,"late_to":sc.late_to.map(|x| x as i64).unwrap_or(-1),
            "stable_from":stable_from,"ticks":sc.ticks,"timeout_ticks": sc.timeout_delay / sc.dt,"live":live,"nodes":per_node,"submitted":o.submitted.len(),
            "e2e":e2e,"withheld_from":sc.withhold_batches_to.map(|x| x as i64).unwrap_or(-1),"drop_first_sync":sc.drop_first_sync_request,
            "helper_replies_checked":o.helper_replies_checked,"helper_replies_bad":o.helper_replies_bad,
            "frames":o.frames,"dropped":o.dropped,"timer_fires":o.timer_fires});
        for e in o.rig.trace_records() {
            w.write(&e);
        }
        w.write(&summary);
        summaries.push(summary);
        id_base = o.rig.next_id_base();
    }
    w.write(&json!({"t":"end"}));
    let lines = w.lines;
    w.finish();
    println!("{}", json!({"runs":runs,"summaries":summaries,"trace_lines":lines,"wall_s":t0.elapsed().as_secs_f64()}));
    0
}
