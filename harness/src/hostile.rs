//! C15: hostile bytes on the consensus, mempool and transaction ports of full nodes.  Three real nodes and one
//! authority played by the harness (it holds that authority's key -- at most f Byzantine -- and sees what is sent to it).
//! After every burst of hostile input functional probes check that the node still votes/commits, answers block
//! and batch sync requests and batches client transactions.  Any panic in any task is recorded by the panic hook.
use crate::rig::{Frame, Port, Rig, RigCfg};
use crate::util::{Args, NdWriter, Rng};
use bytes::Bytes;
use consensus::verif_export::ConsensusMessage;
use consensus::{Block, QC};
use crypto::{Digest, Hash as _, PublicKey, SecretKey};
use mempool::verif_export::MempoolMessage;
use serde_json::{json, Value};

const H: usize = 3; // the harness-played authority (last in sorted key order)

struct World {
    rig: Rig,
    pool: Vec<Frame>,
    to_h: Vec<Frame>, // frames addressed to the harness-played authority
    tick: usize,
    valid: Vec<(Port, Bytes, &'static str)>, // captured well-formed frames by kind
    rng: Rng,
}

impl World {
    fn tick(&mut self) {
        self.tick += 1;
        for i in 0..self.rig.cfg.n {
            if self.rig.is_real(i) {
                self.rig.advance(i, 50);
            }
        }
        self.pool.extend(self.rig.take_frames());
        let now: Vec<Frame> = self.pool.drain(..).collect();
        for f in now {
            self.capture(&f);
            if f.to == H {
                // the harness-played authority acknowledges what a Receiver would acknowledge
                let ack = f.port == Port::Mempool || matches!(Rig::decode(&f), Some(ConsensusMessage::Propose(_)));
                if ack {
                    self.rig.ack(&f);
                }
                self.to_h.push(f);
            } else {
                self.rig.deliver(&f, true);
            }
        }
    }

    /// One tick in which every proposal on its way to `target` is preceded by doctored copies of itself: the fields that the block's
    /// signature does not cover (the TC, the QC's round and votes) are replaced -- what anyone relaying an honest leader's proposal can do.
    fn tick_doctor(&mut self, target: usize) -> usize {
        self.tick += 1;
        let mut injected = 0;
        for i in 0..self.rig.cfg.n {
            if self.rig.is_real(i) {
                self.rig.advance(i, 50);
            }
        }
        self.pool.extend(self.rig.take_frames());
        let now: Vec<Frame> = self.pool.drain(..).collect();
        for f in now {
            self.capture(&f);
            if f.to == H {
                let ack = f.port == Port::Mempool || matches!(Rig::decode(&f), Some(ConsensusMessage::Propose(_)));
                if ack {
                    self.rig.ack(&f);
                }
                self.to_h.push(f);
                continue;
            }
            if f.to == target {
                if let Some(ConsensusMessage::Propose(b)) = Rig::decode(&f) {
                    let empty = |round: u64| consensus::TC { round, votes: Vec::new() };
                    let mut variants: Vec<Block> = Vec::new();
                    for tc in [empty(0), empty(b.qc.round), empty(b.round.saturating_sub(1)), empty(u64::MAX)] {
                        let mut x = b.clone();
                        x.tc = Some(tc);
                        variants.push(x);
                    }
                    let mut x = b.clone();
                    x.qc.votes.clear();
                    variants.push(x);
                    let mut x = b.clone();
                    x.qc.round = x.qc.round.wrapping_add(1);
                    variants.push(x);
                    let mut x = b.clone();
                    x.qc.votes.truncate(1);
                    x.tc = Some(consensus::TC { round: b.qc.round, votes: vec![(self.rig.keys[H].0, crypto::Signature::default(), u64::MAX)] });
                    variants.push(x);
                    for v in variants {
                        self.rig.inject_msg(target, &ConsensusMessage::Propose(v));
                        injected += 1;
                    }
                }
            }
            self.rig.deliver(&f, true);
        }
        injected
    }

    fn capture(&mut self, f: &Frame) {
        let kind: &'static str = match f.port {
            Port::Consensus => match Rig::decode(f) {
                Some(ConsensusMessage::Propose(_)) => "Propose",
                Some(ConsensusMessage::Vote(_)) => "Vote",
                Some(ConsensusMessage::Timeout(_)) => "Timeout",
                Some(ConsensusMessage::TC(_)) => "TC",
                Some(ConsensusMessage::SyncRequest(..)) => "SyncRequest",
                None => return,
            },
            Port::Mempool => match bincode::deserialize::<MempoolMessage>(&f.data) {
                Ok(MempoolMessage::Batch(_)) => "Batch",
                Ok(MempoolMessage::BatchRequest(..)) => "BatchRequest",
                Err(_) => return,
            },
            Port::Tx => "Tx",
        };
        if self.valid.iter().filter(|(_, _, k)| *k == kind).count() < 3 {
            self.valid.push((f.port, f.data.clone(), kind));
        }
    }

    fn max_commit(&self, i: usize) -> u64 {
        self.rig.delivered[i].last().map(|b| b.round).unwrap_or(0)
    }

    /// probes: (1) commits keep happening, (2) a block sync request is answered, (3) a batch request is answered,
    /// (4) a client transaction is batched and broadcast
    fn probes(&mut self, target: usize) -> Vec<Value> {
        let mut res = Vec::new();
        let before = self.max_commit(target);
        self.to_h.clear();
        // (4) transaction -> batch broadcast reaches the harness-played authority
        let tx: Vec<u8> = (0..40u8).map(|x| x.wrapping_add(self.tick as u8)).collect();
        self.rig.inject_bytes(target, Port::Tx, Bytes::from(tx.clone()));
        // (2) ask for a block the target has committed
        let blk: Option<Block> = self.rig.delivered[target].last().cloned();
        if let Some(b) = &blk {
            let m = ConsensusMessage::SyncRequest(b.digest(), self.rig.keys[H].0);
            self.rig.inject_msg(target, &m);
        }
        // (3) ask for a batch the target stores (the payload of a committed block), if any
        let batch: Option<Digest> = self.rig.delivered[target].iter().rev().flat_map(|b| b.payload.iter().cloned()).next();
        if let Some(d) = &batch {
            let m = MempoolMessage::BatchRequest(vec![d.clone()], self.rig.keys[H].0);
            self.rig.inject_bytes(target, Port::Mempool, Bytes::from(bincode::serialize(&m).unwrap()));
        }
        for _ in 0..120 {
            self.tick();
        }
        let after = self.max_commit(target);
        res.push(json!({"t":"probe","kind":"commits_continue","ok": after > before, "before":before,"after":after}));
        let got_block = match &blk {
            Some(b) => self.to_h.iter().any(|f| f.from == target && matches!(Rig::decode(f), Some(ConsensusMessage::Propose(x)) if x.digest() == b.digest())),
            None => true,
        };
        res.push(json!({"t":"probe","kind":"block_sync_answered","ok": got_block, "asked": blk.is_some()}));
        let got_batch = match &batch {
            Some(d) => self.to_h.iter().any(|f| f.from == target && f.port == Port::Mempool && crate::rig::sha(&[&f.data]) == *d),
            None => true,
        };
        res.push(json!({"t":"probe","kind":"batch_sync_answered","ok": got_batch, "asked": batch.is_some()}));
        let batched = self.to_h.iter().any(|f| {
            f.from == target
                && f.port == Port::Mempool
                && matches!(bincode::deserialize::<MempoolMessage>(&f.data), Ok(MempoolMessage::Batch(txs)) if txs.iter().any(|t| *t == tx))
        });
        res.push(json!({"t":"probe","kind":"transaction_batched","ok": batched}));
        res
    }
}

fn mutate(rng: &mut Rng, b: &Bytes) -> Bytes {
    let mut v = b.to_vec();
    if v.is_empty() {
        return Bytes::from(vec![0xFF]);
    }
    match rng.below(5) {
        0 => {
            let i = rng.below(v.len());
            v[i] ^= 1 << rng.below(8);
        }
        1 => {
            let i = rng.below(v.len());
            v[i] = rng.below(256) as u8;
        }
        2 => v.truncate(rng.below(v.len())),
        3 => {
            let i = rng.below(v.len());
            let k = (8).min(v.len() - i);
            for x in &mut v[i..i + k] {
                *x = 0xFF;
            }
        }
        _ => {
            let i = rng.below(v.len());
            v.insert(i, rng.below(256) as u8);
        }
    }
    Bytes::from(v)
}

/// the hostile classes (the list is the class matrix of Hostile.tla: port x shape)
fn burst(w: &mut World, class: &str, port: Port, target: usize, count: usize) -> usize {
    let mut sent = 0;
    if class == "relayed_proposal_unsigned_fields_doctored" {
        // runs the system for a while; every proposal that reaches the target meanwhile is preceded by doctored copies
        for _ in 0..(4 * count).max(40) {
            sent += w.tick_doctor(target);
        }
        return sent;
    }
    let keys_h: (PublicKey, SecretKey) = (w.rig.keys[H].0, crate::rig::clone_sk(&w.rig.keys[H].1));
    let _ = &keys_h;
    for k in 0..count {
        let data: Option<Bytes> = match class {
            "random_bytes" => {
                let len = [0usize, 1, 2, 3, 7, 8, 9, 31, 32, 33, 100, 1000, 70_000][k % 13];
                Some(Bytes::from((0..len).map(|_| w.rng.below(256) as u8).collect::<Vec<u8>>()))
            }
            "truncated_valid" | "mutated_valid" => {
                let c: Vec<Bytes> = w.valid.iter().filter(|(p, _, _)| *p == port || port == Port::Tx).map(|(_, b, _)| b.clone()).collect();
                if c.is_empty() {
                    None
                } else {
                    let b = &c[k % c.len()];
                    if class == "truncated_valid" {
                        Some(b.slice(0..(k * 7) % b.len().max(1)))
                    } else {
                        Some(mutate(&mut w.rng, b))
                    }
                }
            }
            "other_ports_valid" => {
                // a frame that is valid on another port (cross-component content)
                let c: Vec<Bytes> = w.valid.iter().filter(|(p, _, _)| *p != port).map(|(_, b, _)| b.clone()).collect();
                if c.is_empty() { None } else { Some(c[k % c.len()].clone()) }
            }
            "sync_request_for_batch_digest" => {
                // consensus SyncRequest whose digest is the key of a mempool batch in the shared store
                let d: Option<Digest> = w.rig.delivered[target].iter().rev().flat_map(|b| b.payload.iter().cloned()).nth(k);
                d.map(|d| Bytes::from(bincode::serialize(&ConsensusMessage::SyncRequest(d, w.rig.keys[H].0)).unwrap()))
            }
            "batch_request_for_block_digest" => {
                let d: Option<Digest> = w.rig.delivered[target].iter().rev().nth(k).map(|b| b.digest());
                d.map(|d| Bytes::from(bincode::serialize(&MempoolMessage::BatchRequest(vec![d, Digest::default()], w.rig.keys[H].0)).unwrap()))
            }
            "sync_request_unknown" => {
                let d = crate::rig::sha(&[b"nothing", &(k as u64).to_le_bytes()]);
                let origin = if k % 2 == 0 { w.rig.keys[H].0 } else { PublicKey([k as u8; 32]) };
                Some(if port == Port::Consensus {
                    Bytes::from(bincode::serialize(&ConsensusMessage::SyncRequest(d, origin)).unwrap())
                } else {
                    Bytes::from(bincode::serialize(&MempoolMessage::BatchRequest(vec![d; k % 5], origin)).unwrap())
                })
            }
            "short_or_long_key" => {
                // a message whose public key field is a base64 string of the wrong length
                let d = Digest::default();
                let good = bincode::serialize(&ConsensusMessage::SyncRequest(d.clone(), w.rig.keys[H].0)).unwrap();
                let key_str = ["", "AAAA", "AAAAAAAAAAAAAAAAAAAAAAAAAAAAAAAAAAAAAAAAAAA", "!!!!", "AAAAAAAAAAAAAAAAAAAAAAAAAAAAAAAAAAAAAAAAAAAAAAAAAAAAAAAAAAAAAAAAAAAAAAAAAAAAAAAAAAAAAA=="][k % 5];
                // layout: variant(u32) || digest(32) || string(len u64 || bytes)
                let mut v = good[..4 + 32].to_vec();
                v.extend_from_slice(&(key_str.len() as u64).to_le_bytes());
                v.extend_from_slice(key_str.as_bytes());
                if port == Port::Mempool {
                    // BatchRequest(Vec<Digest>, PublicKey): variant 1, empty vec, then the key string
                    let mut m = 1u32.to_le_bytes().to_vec();
                    m.extend_from_slice(&0u64.to_le_bytes());
                    m.extend_from_slice(&(key_str.len() as u64).to_le_bytes());
                    m.extend_from_slice(key_str.as_bytes());
                    Some(Bytes::from(m))
                } else {
                    Some(Bytes::from(v))
                }
            }
            "byzantine_member_absurd_rounds" => {
                // correctly signed by the harness-played member, with absurd rounds
                let r = [u64::MAX, u64::MAX - 1, 1u64 << 63, 0][k % 4];
                let m = match k % 3 {
                    0 => ConsensusMessage::Vote(w.rig.make_vote(H, &Digest::default(), r)),
                    1 => ConsensusMessage::Timeout(w.rig.make_timeout(H, r, QC::genesis())),
                    _ => ConsensusMessage::Propose(w.rig.make_block(H, r, QC::genesis(), None, vec![Digest::default(); k % 3])),
                };
                Some(Bytes::from(bincode::serialize(&m).unwrap()))
            }
            "huge_length_prefix" => {
                // bincode sequences / strings announcing 2^64-1 elements
                let mut v = (if port == Port::Consensus { 0u32 } else { 0u32 }).to_le_bytes().to_vec();
                v.extend_from_slice(&u64::MAX.to_le_bytes());
                v.extend_from_slice(&[0u8; 64]);
                Some(Bytes::from(v))
            }
            "empty_and_tiny_transactions" => Some(Bytes::from(vec![0u8; k % 3])),
            other => panic!("unknown class {}", other),
        };
        if let Some(d) = data {
            w.rig.inject_bytes(target, port, d);
            sent += 1;
        }
    }
    sent
}

pub const CLASSES: &[(&str, &[Port])] = &[
    ("random_bytes", &[Port::Consensus, Port::Mempool, Port::Tx]),
    ("truncated_valid", &[Port::Consensus, Port::Mempool]),
    ("mutated_valid", &[Port::Consensus, Port::Mempool, Port::Tx]),
    ("other_ports_valid", &[Port::Consensus, Port::Mempool]),
    ("sync_request_for_batch_digest", &[Port::Consensus]),
    ("batch_request_for_block_digest", &[Port::Mempool]),
    ("sync_request_unknown", &[Port::Consensus, Port::Mempool]),
    ("short_or_long_key", &[Port::Consensus, Port::Mempool]),
    ("byzantine_member_absurd_rounds", &[Port::Consensus]),
    ("huge_length_prefix", &[Port::Consensus, Port::Mempool]),
    ("empty_and_tiny_transactions", &[Port::Tx]),
    ("relayed_proposal_unsigned_fields_doctored", &[Port::Consensus]),
];

fn decoder_totality(w: &mut NdWriter, rng: &mut Rng) -> usize {
    // decoding of keys and messages is total: a value or an error for every input
    let mut n = 0;
    let mut inputs: Vec<String> = vec!["".into(), "A".into(), "AAAA".into(), "====".into(), "AAAAAAAAAAAAAAAAAAAAAAAAAAAAAAAAAAAAAAAAAAA".into(),
        "AAAAAAAAAAAAAAAAAAAAAAAAAAAAAAAAAAAAAAAAAAA=".into(), "AAAAAAAAAAAAAAAAAAAAAAAAAAAAAAAAAAAAAAAAAAAAAAAAAAAAAAAAAAAAAAAAAAAAAAAAAAAAAAAAAAAAAA==".into(),
        "not base64 at all!".into(), "\u{0}\u{1}".into()];
    for len in 0..100usize {
        inputs.push(base64::encode(vec![7u8; len]));
    }
    for _ in 0..50 {
        let len = rng.below(120);
        inputs.push((0..len).map(|_| (32 + rng.below(95)) as u8 as char).collect());
    }
    for s in &inputs {
        for (what, r) in [
            ("PublicKey::decode_base64", std::panic::catch_unwind(|| PublicKey::decode_base64(s).is_ok())),
            ("SecretKey::decode_base64", std::panic::catch_unwind(|| SecretKey::decode_base64(s).is_ok())),
            ("serde_json PublicKey", std::panic::catch_unwind(|| serde_json::from_str::<PublicKey>(&format!("{:?}", s)).is_ok())),
        ] {
            n += 1;
            w.write(&json!({"t":"decode","what":what,"len":s.len(),"panicked":r.is_err()}));
        }
    }
    for k in 0..400 {
        let len = [0usize, 1, 3, 4, 5, 11, 12, 36, 40, 44, 100, 300][k % 12];
        let mut bytes: Vec<u8> = (0..len).map(|_| rng.below(256) as u8).collect();
        if len >= 4 && k % 2 == 0 {
            bytes[0] = (k % 6) as u8;
            bytes[1] = 0;
            bytes[2] = 0;
            bytes[3] = 0;
        }
        let b2 = bytes.clone();
        let r1 = std::panic::catch_unwind(move || bincode::deserialize::<ConsensusMessage>(&bytes).is_ok());
        let r2 = std::panic::catch_unwind(move || bincode::deserialize::<MempoolMessage>(&b2).is_ok());
        n += 2;
        w.write(&json!({"t":"decode","what":"bincode ConsensusMessage","len":len,"panicked":r1.is_err()}));
        w.write(&json!({"t":"decode","what":"bincode MempoolMessage","len":len,"panicked":r2.is_err()}));
    }
    let _ = crate::util::take_panics();
    n
}

/// hsverif hostile out=<trace> seed=S per_class=K
pub fn main(rest: &[String]) -> i32 {
    let a = Args::parse(rest);
    let out = a.str("out", "trace.ndjson");
    let seed = a.u64("seed", 1);
    let per_class = a.usize("per_class", 12);
    let tag = a.str("tag", &format!("{}", std::process::id()));
    let mut w = NdWriter::create(&out);
    w.write(&json!({"t":"reset","benchmark_feature":cfg!(feature = "benchmark")}));
    let t0 = std::time::Instant::now();
    let mut rng0 = Rng::new(seed ^ 0xC15);
    let decodes = decoder_totality(&mut w, &mut rng0);
    let mut cfg = RigCfg::new(4);
    cfg.real = vec![true, true, true, false];
    cfg.with_mempool = true;
    cfg.timeout_delay = 1_000;
    cfg.sync_retry_delay = 0;
    cfg.batch_size = 30;
    cfg.max_batch_delay = 100;
    cfg.key_seed = (seed % 200) as u8;
    cfg.tag = tag;
    let rig = Rig::new(cfg);
    let mut world = World { rig, pool: Vec::new(), to_h: Vec::new(), tick: 0, valid: Vec::new(), rng: Rng::new(seed) };
    // warm-up with client load so that every kind of frame and some stored batches exist
    for t in 0..260 {
        if t % 12 == 3 && t < 150 {
            let tx: Vec<u8> = (0..50u8).map(|x| x ^ (t as u8)).collect();
            let node = (t / 12) % 3;
            world.rig.inject_bytes(node, Port::Tx, Bytes::from(tx));
        }
        world.tick();
    }
    let _ = crate::util::take_panics();
    let (mut bursts, mut sent_total) = (0usize, 0usize);
    for (ci, (class, ports)) in CLASSES.iter().enumerate() {
        for port in ports.iter() {
            let target = (ci + bursts) % 3;
            let before_events = world.rig.events.len();
            let sent = burst(&mut world, class, *port, target, per_class);
            for _ in 0..4 {
                world.tick();
            }
            let mut panics: Vec<String> = world.rig.panics.drain(..).collect();
            panics.extend(crate::util::take_panics());
            let steps = world.rig.events[before_events..].iter().filter(|e| e["t"] == "core").count();
            w.write(&json!({"t":"hostile","class":class,"port":format!("{:?}", port),"target":target,"sent":sent,"panics":panics.len(),
                            "panic_messages":panics.iter().take(3).collect::<Vec<_>>(),"core_steps":steps}));
            bursts += 1;
            sent_total += sent;
            for p in world.probes(target) {
                w.write(&p);
            }
            let mut late: Vec<String> = world.rig.panics.drain(..).collect();
            late.extend(crate::util::take_panics());
            if !late.is_empty() {
                w.write(&json!({"t":"hostile","class":format!("{} (during probes)", class),"port":format!("{:?}", port),"target":target,"sent":0,
                                "panics":late.len(),"panic_messages":late.iter().take(3).collect::<Vec<_>>(),"core_steps":0}));
            }
        }
    }
    w.write(&json!({"t":"end"}));
    let lines = w.lines;
    w.finish();
    println!("{}", json!({"bursts":bursts,"hostile_frames":sent_total,"decoder_inputs":decodes,"trace_lines":lines,
                          "benchmark_feature":cfg!(feature = "benchmark"),"wall_s":t0.elapsed().as_secs_f64()}));
    0
}
