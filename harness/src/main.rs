mod attack;
mod cryptod;
mod fetchd;
mod full;
mod hostile;
mod local;
mod mempoold;
mod multi;
mod netd;
mod proposerd;
mod rig;
mod seq;
mod util;
mod verifym;

fn main() {
    // A panic inside code under test is data: record it, never abort the harness.
    std::panic::set_hook(Box::new(|info| {
        if std::env::var("HSVERIF_PRINT_PANICS").is_ok() {
            eprintln!("PANIC: {}", info);
        }
        util::record_panic(format!("{}", info));
    }));
    // fixes the epoch of the virtual clock (network::simnet::now_ms) before any runtime exists
    network::simnet::reset();
    let args: Vec<String> = std::env::args().collect();
    let cmd = args.get(1).map(|s| s.as_str()).unwrap_or("");
    let rest: Vec<String> = args.iter().skip(2).cloned().collect();
    let code = match cmd {
        "multi" => multi::main(&rest),
        "local" => local::main(&rest),
        "attack" => attack::main(&rest),
        "verify" => verifym::main(&rest),
        "crypto" => cryptod::crypto_main(&rest),
        "digests" => cryptod::digests_main(&rest),
        "rsender" => netd::rsender_main(&rest),
        "batch" => mempoold::batch_main(&rest),
        "qw" => mempoold::qw_main(&rest),
        "qwnet" => mempoold::qwnet_main(&rest),
        "full" => full::main(&rest),
        "hostile" => hostile::main(&rest),
        "fetch" => fetchd::main(&rest),
        "proposer" => proposerd::main(&rest),
        "agg" => seq::agg_main(&rest),
        "committee" => seq::committee_main(&rest),
        "store" => seq::store_main(&rest),
        _ => {
            eprintln!("usage: hsverif <multi|...> [key=value ...]");
            2
        }
    };
    std::process::exit(code);
}
