//! C11 (BatchMaker + Processor) and C12 (QuorumWaiter): the real mempool tasks driven by TLC-generated schedules.
use crate::rig::{sha, Rig, RigCfg};
use crate::util::{Args, NdWriter};
use bytes::Bytes;
use crypto::Digest;
use futures::{FutureExt, StreamExt};
use mempool::verif_export::{BatchMaker, MempoolMessage, Processor, QuorumWaiter, QuorumWaiterMessage};
use network::simnet;
use serde_json::{json, Value};
use std::time::Duration;
use store::Store;
use tokio::sync::mpsc::channel;
use tokio::sync::oneshot;
use tokio_util::codec::{Framed, LengthDelimitedCodec};

async fn settle() {
    for _ in 0..80 {
        tokio::task::yield_now().await;
    }
}

fn read_schedules(path: &str, limit: usize) -> Vec<Vec<Value>> {
    let text = std::fs::read_to_string(path).expect("read schedules");
    let mut seen = std::collections::HashSet::new();
    text.lines()
        .filter(|l| !l.trim().is_empty() && seen.insert(l.to_string()))
        .take(limit)
        .map(|l| serde_json::from_str(l).expect("schedule json"))
        .collect()
}

/// transaction bytes: size 0 is the empty transaction; otherwise the first byte alternates between 0 (the
/// benchmark client's "sample transaction" marker) and 1, followed by the transaction number
fn tx_bytes(k: usize, size: usize) -> Vec<u8> {
    let mut v = vec![0u8; size];
    if size > 0 {
        v[0] = (k % 2) as u8;
    }
    for (i, b) in (k as u64).to_be_bytes().iter().enumerate() {
        if 1 + i < size {
            v[1 + i] = *b;
        }
    }
    v
}

async fn run_batch(beh: &[Value], batch_size: usize, max_delay: u64, store_path: &str, recs: &mut Vec<Value>) {
    simnet::reset();
    simnet::install_switch();
    simnet::set_current(0);
    let mut cfg = RigCfg::new(4);
    cfg.real = vec![false; 4];
    let rig = Rig::new(cfg);
    simnet::install_switch();
    let peers: Vec<_> = (1..4).map(|i| (rig.keys[i].0, crate::rig::addr(i, crate::rig::Port::Mempool))).collect();
    let (tx_transaction, rx_transaction) = channel(1000);
    let (tx_message, mut rx_message) = channel::<QuorumWaiterMessage>(1000);
    BatchMaker::spawn(batch_size, max_delay, rx_transaction, tx_message, peers);
    let _ = std::fs::remove_dir_all(store_path);
    let mut store = Store::new(store_path).expect("store");
    let (tx_proc, rx_proc) = channel(1000);
    let (tx_digest, mut rx_digest) = channel::<Digest>(1000);
    Processor::spawn(store.clone(), rx_proc, tx_digest);
    settle().await;
    let mut submitted: Vec<Vec<u8>> = Vec::new();
    let mut sealed: Vec<Vec<usize>> = Vec::new(); // transaction numbers by position
    let mut flat: Vec<Vec<u8>> = Vec::new();
    let mut conns: Vec<Framed<tokio::io::DuplexStream, LengthDelimitedCodec>> = Vec::new();
    let mut wire: Vec<Bytes> = Vec::new();
    let mut keep = Vec::new();
    let mut dead = false;
    for act in beh {
        let a = act["a"].as_str().unwrap();
        match a {
            "tx" => {
                let size = act["size"].as_u64().unwrap() as usize;
                let t = tx_bytes(submitted.len() + 1, size);
                submitted.push(t.clone());
                if tx_transaction.send(t).await.is_err() {
                    dead = true;
                }
            }
            "advance" => {
                tokio::time::advance(Duration::from_millis(act["ms"].as_u64().unwrap())).await;
            }
            other => panic!("unknown move {}", other),
        }
        // a transaction marked `hold` is handed over without letting the batch maker run before the next move: transactions queue up in
        // its channel, as they do under load
        if act.get("hold").and_then(|x| x.as_bool()).unwrap_or(false) {
            let mut r = json!({"t":"bm","ev":a,"sealed_so_far":[],"panicked":false,"unsettled":true});
            r["size"] = act["size"].clone();
            recs.push(r);
            continue;
        }
        settle().await;
        for ic in simnet::take_intercepted() {
            conns.push(Framed::new(ic.stream, LengthDelimitedCodec::new()));
        }
        for c in conns.iter_mut() {
            while let Some(Some(Ok(f))) = c.next().now_or_never() {
                wire.push(f.freeze());
            }
        }
        while let Ok(m) = rx_message.try_recv() {
            let bytes = m.batch.clone();
            keep.push(m.handlers);
            let txs: Vec<Vec<u8>> = match bincode::deserialize::<MempoolMessage>(&bytes) {
                Ok(MempoolMessage::Batch(b)) => b,
                _ => Vec::new(),
            };
            let first = flat.len() + 1;
            sealed.push((first..first + txs.len()).collect());
            flat.extend(txs.iter().cloned());
            let identical = flat.len() <= submitted.len() && flat[first - 1..] == submitted[first - 1..flat.len()];
            // the same bytes went on the wire to every peer
            let on_wire = wire.iter().filter(|w| w[..] == bytes[..]).count();
            // the processor stores and announces it under the hash of exactly these bytes
            let _ = tx_proc.send(bytes.clone()).await;
            settle().await;
            let expect = sha(&[&bytes]);
            let announced = rx_digest.try_recv().ok();
            let stored = store.read(expect.to_vec()).await.ok().flatten();
            recs.push(json!({"t":"batch","ntx":txs.len(),"bytes":bytes.len(),"txs_byte_identical":identical,
                "stored_under_hash_of_bytes": stored.as_deref() == Some(&bytes[..]),
                "announced_digest_is_key": announced == Some(expect), "sent_to_peers": on_wire}));
        }
        let panics = crate::util::take_panics();
        if !panics.is_empty() {
            dead = true;
        }
        let mut r = json!({"t":"bm","ev":a,"sealed_so_far":sealed,"panicked":dead});
        if a == "tx" {
            r["size"] = act["size"].clone();
        } else {
            r["ms"] = act["ms"].clone();
        }
        recs.push(r);
    }
}

/// hsverif batch in=<schedules> out=<trace> batch_size=B max_delay=D
pub fn batch_main(rest: &[String]) -> i32 {
    let a = Args::parse(rest);
    let input = a.str("in", "schedules.ndjson");
    let out = a.str("out", "trace.ndjson");
    let batch_size = a.usize("batch_size", 4);
    let max_delay = a.u64("max_delay", 3);
    let tag = a.str("tag", &format!("{}", std::process::id()));
    let base = if std::path::Path::new("/dev/shm").exists() { "/dev/shm".to_string() } else { std::env::temp_dir().to_string_lossy().to_string() };
    let mut w = NdWriter::create(&out);
    let (mut n, mut moves) = (0usize, 0usize);
    let t0 = std::time::Instant::now();
    let mut first = true;
    for beh in read_schedules(&input, a.usize("limit", usize::MAX)) {
        let rt = tokio::runtime::Builder::new_current_thread().enable_all().start_paused(true).build().unwrap();
        let mut recs = Vec::new();
        let path = format!("{}/hsverif_bm_{}_{}", base, tag, n % 4);
        let r = std::panic::catch_unwind(std::panic::AssertUnwindSafe(|| rt.block_on(run_batch(&beh, batch_size, max_delay, &path, &mut recs))));
        drop(rt);
        let _ = std::fs::remove_dir_all(&path);
        let mut reset = json!({"t":"reset"});
        if first {
            reset = json!({"t":"reset","batch_size":batch_size,"max_delay":max_delay,"benchmark_feature":cfg!(feature = "benchmark")});
            first = false;
        }
        w.write(&reset);
        if r.is_err() {
            recs.push(json!({"t":"bm","ev":"tx","size":0,"sealed_so_far":[],"panicked":true}));
        }
        for e in recs {
            w.write(&e);
        }
        n += 1;
        moves += beh.len();
    }
    w.write(&json!({"t":"end"}));
    let lines = w.lines;
    w.finish();
    println!("{}", json!({"schedules":n,"moves":moves,"trace_lines":lines,"benchmark_feature":cfg!(feature = "benchmark"),"wall_s":t0.elapsed().as_secs_f64()}));
    0
}

async fn run_qw(beh: &[Value], stakes: &[u32], recs: &mut Vec<Value>) {
    let n = stakes.len();
    let mut cfg = RigCfg::new(n);
    cfg.stakes = stakes.to_vec();
    cfg.real = vec![false; n];
    let rig = Rig::new(cfg);
    let (tx_message, rx_message) = channel::<QuorumWaiterMessage>(1000);
    let (tx_batch, mut rx_batch) = channel::<Vec<u8>>(1000);
    QuorumWaiter::spawn(rig.mcommittee.clone(), stakes[0], rx_message, tx_batch);
    settle().await;
    let mut senders: Vec<Vec<Option<oneshot::Sender<Bytes>>>> = Vec::new();
    let mut released: Vec<usize> = Vec::new();
    for act in beh {
        let a = act["a"].as_str().unwrap();
        match a {
            "submit" => {
                let b = senders.len() + 1;
                let mut hs = Vec::new();
                let mut ss = vec![None];
                for p in 1..n {
                    let (s, r) = oneshot::channel();
                    hs.push((rig.keys[p].0, r));
                    ss.push(Some(s));
                }
                senders.push(ss);
                let _ = tx_message.send(QuorumWaiterMessage { batch: format!("batch-{}", b).into_bytes(), handlers: hs }).await;
                recs.push(json!({"t":"qw","ev":"submit","b":b}));
            }
            "ack" => {
                let (b, p) = (act["b"].as_u64().unwrap() as usize, act["p"].as_u64().unwrap() as usize);
                if let Some(s) = senders.get_mut(b - 1).and_then(|v| v[p].take()) {
                    let _ = s.send(Bytes::from("Ack"));
                }
                recs.push(json!({"t":"qw","ev":"ack","b":b,"p":p}));
            }
            other => panic!("unknown move {}", other),
        }
        settle().await;
        while let Ok(bytes) = rx_batch.try_recv() {
            let s = String::from_utf8_lossy(&bytes).to_string();
            released.push(s.trim_start_matches("batch-").parse().unwrap_or(0));
        }
        recs.push(json!({"t":"qw","ev":"observed","released":released}));
    }
}

/// hsverif qw in=<schedules> out=<trace> stakes=me,p1,p2,..
pub fn qw_main(rest: &[String]) -> i32 {
    let a = Args::parse(rest);
    let input = a.str("in", "schedules.ndjson");
    let out = a.str("out", "trace.ndjson");
    let stakes = a.list_u32("stakes").unwrap_or_else(|| vec![1, 1, 1, 1]);
    let mut w = NdWriter::create(&out);
    let (mut n, mut moves) = (0usize, 0usize);
    let t0 = std::time::Instant::now();
    let mut first = true;
    for beh in read_schedules(&input, a.usize("limit", usize::MAX)) {
        let rt = tokio::runtime::Builder::new_current_thread().enable_all().start_paused(true).build().unwrap();
        let mut recs = Vec::new();
        let r = std::panic::catch_unwind(std::panic::AssertUnwindSafe(|| rt.block_on(run_qw(&beh, &stakes, &mut recs))));
        let _ = r;
        if first {
            w.write(&json!({"t":"reset","stakes":stakes}));
            first = false;
        } else {
            w.write(&json!({"t":"reset"}));
        }
        for e in recs {
            w.write(&e);
        }
        n += 1;
        moves += beh.len();
    }
    w.write(&json!({"t":"end"}));
    let lines = w.lines;
    w.finish();
    println!("{}", json!({"schedules":n,"moves":moves,"trace_lines":lines,"wall_s":t0.elapsed().as_secs_f64()}));
    0
}


// ---------------------------------------------------------------------------------------------------------------------
// C12 with several batches in flight (spec/QWNet.tla): real BatchMaker -> ReliableSender -> (harness peers) -> QuorumWaiter

async fn run_qwnet(beh: &[Value], stakes: &[u32], down: &[usize], recs: &mut Vec<Value>) {
    use futures::SinkExt;
    let n = stakes.len();
    let mut cfg = RigCfg::new(n);
    cfg.stakes = stakes.to_vec();
    cfg.real = vec![false; n];
    let rig = Rig::new(cfg);
    simnet::set_current(0);
    // peers that refuse connections: the reliable sender keeps what it has for them in its buffer and retries with back-off
    let refused: Vec<std::net::SocketAddr> = down.iter().map(|p| crate::rig::addr(*p, crate::rig::Port::Mempool)).collect();
    if !refused.is_empty() {
        simnet::set_refuse(Box::new(move |_, a| refused.contains(&a)));
    }
    let peers: Vec<_> = (1..n).map(|i| (rig.keys[i].0, crate::rig::addr(i, crate::rig::Port::Mempool))).collect();
    let (tx_transaction, rx_transaction) = channel(1000);
    let (tx_message, rx_message) = channel::<QuorumWaiterMessage>(1000);
    let batch_size = 16usize;
    BatchMaker::spawn(batch_size, 1_000_000, rx_transaction, tx_message, peers);
    let (tx_batch, mut rx_batch) = channel::<Vec<u8>>(1000);
    QuorumWaiter::spawn(rig.mcommittee.clone(), stakes[0], rx_message, tx_batch);
    settle().await;
    let mut conns: Vec<(usize, Framed<tokio::io::DuplexStream, LengthDelimitedCodec>)> = Vec::new();
    let mut unanswered: Vec<std::collections::VecDeque<usize>> = vec![Default::default(); n];
    let mut index_of: std::collections::HashMap<Vec<u8>, usize> = Default::default(); // serialized batch -> batch number
    let mut sealed = 0usize;
    let mut released: Vec<usize> = Vec::new();
    for act in beh {
        let a = act["a"].as_str().unwrap();
        let mut rec = json!({"t":"qn","ev":a});
        match a {
            "seal" => {
                sealed += 1;
                let mut t = vec![1u8; batch_size];
                t[1..9].copy_from_slice(&(sealed as u64).to_be_bytes());
                let ser = bincode::serialize(&MempoolMessage::Batch(vec![t.clone()])).unwrap();
                index_of.insert(ser, sealed);
                let _ = tx_transaction.send(t).await;
            }
            "ack" => {
                let p = act["p"].as_u64().unwrap() as usize;
                let b = unanswered[p].pop_front().unwrap_or(0);
                if b != 0 {
                    if let Some((_, c)) = conns.iter_mut().find(|(q, _)| *q == p) {
                        let _ = c.send(Bytes::from("Ack")).await;
                    }
                }
                rec["p"] = json!(p);
                rec["b"] = json!(b);
            }
            other => panic!("unknown move {}", other),
        }
        settle().await;
        settle().await;
        for ic in simnet::take_intercepted() {
            let (to, _) = crate::rig::port_of(&ic.dest);
            conns.push((to, Framed::new(ic.stream, LengthDelimitedCodec::new())));
        }
        for (to, c) in conns.iter_mut() {
            while let Some(Some(Ok(f))) = c.next().now_or_never() {
                unanswered[*to].push_back(index_of.get(&f[..]).cloned().unwrap_or(usize::MAX));
            }
        }
        recs.push(rec);
        while let Ok(bytes) = rx_batch.try_recv() {
            released.push(index_of.get(&bytes).cloned().unwrap_or(usize::MAX));
        }
        let mut o = json!({"t":"qn","ev":"observed","released":released});
        let panics = crate::util::take_panics();
        if !panics.is_empty() {
            o["panic"] = json!(panics);
        }
        recs.push(o);
    }
}

/// hsverif qwnet in=<schedules> out=<trace> stakes=me,p1,p2,..
pub fn qwnet_main(rest: &[String]) -> i32 {
    let a = Args::parse(rest);
    let down = a.list_usize("down");
    let input = a.str("in", "schedules.ndjson");
    let out = a.str("out", "trace.ndjson");
    let stakes = a.list_u32("stakes").unwrap_or_else(|| vec![1, 1, 1, 1]);
    let mut w = NdWriter::create(&out);
    let (mut n, mut moves) = (0usize, 0usize);
    let t0 = std::time::Instant::now();
    let mut first = true;
    for beh in read_schedules(&input, a.usize("limit", usize::MAX)) {
        let rt = tokio::runtime::Builder::new_current_thread().enable_all().start_paused(true).build().unwrap();
        let mut recs = Vec::new();
        let r = std::panic::catch_unwind(std::panic::AssertUnwindSafe(|| rt.block_on(run_qwnet(&beh, &stakes, &down, &mut recs))));
        let _ = r;
        simnet::clear_refuse();
        if first {
            w.write(&json!({"t":"reset","stakes":stakes,"down":down}));
            first = false;
        } else {
            w.write(&json!({"t":"reset"}));
        }
        for e in recs {
            w.write(&e);
        }
        n += 1;
        moves += beh.len();
    }
    w.write(&json!({"t":"end"}));
    let lines = w.lines;
    w.finish();
    println!("{}", json!({"schedules":n,"moves":moves,"trace_lines":lines,"wall_s":t0.elapsed().as_secs_f64()}));
    0
}
