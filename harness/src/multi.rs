//! Randomised multi-node executions of the real stack under a harness-owned network.
//! Output: an abstract ndjson trace (one record per handler invocation of each real node).
use crate::rig::{Frame, Port, Rig, RigCfg};
use crate::util::{Args, NdWriter, Rng};
use consensus::verif_export::ConsensusMessage;
use serde_json::json;

pub struct RunStats {
    pub steps: usize,
    pub frames: usize,
    pub commits: Vec<usize>,
    pub max_round: u64,
    pub timers: usize,
    pub dropped: usize,
    pub duplicated: usize,
}

pub fn kind_of(f: &Frame) -> &'static str {
    match Rig::decode(f) {
        Some(ConsensusMessage::Propose(_)) => "Propose",
        Some(ConsensusMessage::Vote(_)) => "Vote",
        Some(ConsensusMessage::Timeout(_)) => "Timeout",
        Some(ConsensusMessage::TC(_)) => "TC",
        Some(ConsensusMessage::SyncRequest(..)) => "SyncRequest",
        None => "Other",
    }
}

pub fn run_one(a: &Args, seed: u64, w: &mut NdWriter, id_base: &mut usize) -> RunStats {
    let n = a.usize("n", 4);
    let mut cfg = RigCfg::new(n);
    if let Some(s) = a.list_u32("stakes") {
        cfg.stakes = s;
    }
    cfg.key_seed = (seed % 251) as u8;
    let crash = a.list_usize("crash");
    let crash_at = a.usize("crash_at", 0);
    let absent = a.list_usize("absent");
    for x in &absent {
        cfg.real[*x] = false;
    }
    cfg.timeout_delay = a.u64("timeout_delay", 1_000);
    let steps = a.usize("steps", 400);
    let p_drop = a.f64("p_drop", 0.02);
    let p_dup = a.f64("p_dup", 0.03);
    let p_timer = a.f64("p_timer", 0.02);
    let max_round = a.u64("maxround", 40);
    let mut rng = Rng::new(seed);
    let honest: Vec<usize> = (0..n).filter(|i| !absent.contains(i)).collect();
    w.write(&json!({"t":"reset","n":n,"stakes":cfg.stakes,"honest":honest,"seed":seed,"leaders":crate::rig::leader_table(&cfg, 128)}));
    let mut rig = Rig::with_base(cfg, *id_base);
    let mut pool: Vec<Frame> = Vec::new();
    let mut st = RunStats {
        steps: 0,
        frames: 0,
        commits: vec![0; n],
        max_round: 0,
        timers: 0,
        dropped: 0,
        duplicated: 0,
    };
    for step in 0..steps {
        st.steps = step + 1;
        if step == crash_at {
            for c in &crash {
                if rig.is_real(*c) {
                    rig.crash(*c);
                }
            }
        }
        for i in 0..n {
            rig.pump(i);
        }
        pool.extend(rig.take_frames());
        pool.retain(|f| rig.is_real(f.to));
        // stop when the protocol went far enough
        let cur_max = rig
            .events
            .iter()
            .rev()
            .take(50)
            .filter_map(|e| e["st"]["r"].as_u64())
            .max()
            .unwrap_or(0);
        st.max_round = st.max_round.max(cur_max);
        if cur_max > max_round {
            break;
        }
        if !pool.is_empty() && !rng.chance(p_timer) {
            let ix = if rng.chance(0.7) { 0 } else { rng.below(pool.len()) };
            let best_effort = kind_of(&pool[ix]) != "Propose";
            if best_effort && rng.chance(p_drop) {
                let f = pool.remove(ix);
                rig.rig_event(json!({"t":"rig","k":"Drop","from":f.from,"to":f.to,"kind":kind_of(&f)}));
                st.dropped += 1;
                continue;
            }
            let f = if rng.chance(p_dup) {
                st.duplicated += 1;
                pool[ix].clone()
            } else {
                pool.remove(ix)
            };
            if f.port == Port::Consensus {
                rig.rig_event(json!({"t":"rig","k":"Deliver","from":f.from,"to":f.to,"kind":kind_of(&f)}));
            }
            rig.deliver(&f, true);
            st.frames += 1;
        } else {
            let alive: Vec<usize> = (0..n).filter(|i| rig.is_real(*i)).collect();
            if alive.is_empty() {
                break;
            }
            if pool.is_empty() {
                // nothing in flight: every live node's timer fires
                for i in alive {
                    rig.fire_timer(i);
                    st.timers += 1;
                }
            } else {
                let i = alive[rng.below(alive.len())];
                rig.fire_timer(i);
                st.timers += 1;
            }
        }
    }
    for i in 0..n {
        rig.pump(i);
        st.commits[i] = rig.delivered[i].len();
    }
    for p in rig.panics.drain(..) {
        rig.events.push(json!({"t":"rig","k":"Panic","what":p}));
    }
    for p in crate::util::take_panics() {
        rig.events.push(json!({"t":"rig","k":"Panic","what":p}));
    }
    for e in rig.trace_records() {
        w.write(&e);
    }
    *id_base = rig.next_id_base();
    st
}

pub fn main(rest: &[String]) -> i32 {
    let a = Args::parse(rest);
    let seed = a.u64("seed", 1);
    let runs = a.usize("runs", 1);
    let out = a.str("out", "trace.ndjson");
    let mut w = NdWriter::create(&out);
    let mut total_frames = 0;
    let mut total_commits = 0;
    let mut total_timers = 0;
    let mut max_round = 0;
    let t0 = std::time::Instant::now();
    let mut id_base = 0usize;
    for r in 0..runs {
        let st = run_one(&a, seed.wrapping_mul(1_000_003).wrapping_add(r as u64), &mut w, &mut id_base);
        total_frames += st.frames;
        total_commits += st.commits.iter().sum::<usize>();
        total_timers += st.timers;
        max_round = max_round.max(st.max_round);
    }
    w.write(&json!({"t":"end"}));
    let lines = w.lines;
    w.finish();
    println!(
        "{}",
        json!({"runs":runs,"frames":total_frames,"commits":total_commits,"timers":total_timers,"max_round":max_round,
               "trace_lines":lines,"wall_s":t0.elapsed().as_secs_f64()})
    );
    0
}
