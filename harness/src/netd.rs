//! C14: the real network::ReliableSender driven by TLC-generated schedules of caller, peer, network and timer moves.
//! The harness is the peer: it owns the other end of every connection (network::simnet switch), reads frames when the
//! schedule says so, answers each frame with a reply that names the frame it answers, cuts connections, refuses
//! connection attempts and advances the (paused) clock.
use crate::util::{Args, NdWriter};
use bytes::Bytes;
use futures::{FutureExt, SinkExt, StreamExt};
use network::simnet;
use network::{CancelHandler, ReliableSender};
use serde_json::{json, Value};
use std::collections::{HashMap, VecDeque};
use std::net::SocketAddr;
use std::time::Duration;
use tokio::io::DuplexStream;
use tokio_util::codec::{Framed, LengthDelimitedCodec};

type Wire = Framed<DuplexStream, LengthDelimitedCodec>;

struct Peer {
    conn: Option<Wire>,
    cid: usize,
    unreplied: VecDeque<u64>, // ids of frames read on the current connection, not yet answered
}

async fn settle() {
    for _ in 0..60 {
        tokio::task::yield_now().await;
    }
}

fn payload(id: u64) -> Bytes {
    Bytes::from(format!("msg:{}", id))
}

fn id_of(b: &[u8]) -> u64 {
    String::from_utf8_lossy(b).split(':').nth(1).and_then(|x| x.parse().ok()).unwrap_or(0)
}

async fn run_schedule(beh: &[Value], events: &mut Vec<Value>) {
    simnet::reset();
    simnet::install_switch();
    simnet::set_current(0);
    let addr: SocketAddr = "127.0.0.1:7000".parse().unwrap();
    let mut sender = ReliableSender::new();
    let mut handles: HashMap<u64, CancelHandler> = HashMap::new();
    let mut peer = Peer { conn: None, cid: 0, unreplied: VecDeque::new() };
    let mut ev = |events: &mut Vec<Value>, v: Value| events.push(v);
    macro_rules! observe {
        () => {{
            settle().await;
            for ic in simnet::take_intercepted() {
                peer.cid += 1;
                peer.conn = Some(Framed::new(ic.stream, LengthDelimitedCodec::new()));
                peer.unreplied.clear();
                ev(events, json!({"t":"rs","ev":"conn_open","c":peer.cid}));
            }
            settle().await;
            let ids: Vec<u64> = handles.keys().cloned().collect();
            for id in ids {
                let done = match handles.get_mut(&id).unwrap().now_or_never() {
                    Some(Ok(bytes)) => {
                        let s = String::from_utf8_lossy(&bytes).to_string();
                        let mut it = s.split(':');
                        let _ = it.next();
                        let ack_id: u64 = it.next().and_then(|x| x.parse().ok()).unwrap_or(0);
                        let ack_c: u64 = it.next().and_then(|x| x.parse().ok()).unwrap_or(0);
                        ev(events, json!({"t":"rs","ev":"resolved","id":id,"ack_id":ack_id,"ack_c":ack_c}));
                        true
                    }
                    Some(Err(_)) => {
                        ev(events, json!({"t":"rs","ev":"handle_error","id":id}));
                        true
                    }
                    None => false,
                };
                if done {
                    handles.remove(&id);
                }
            }
        }};
    }
    macro_rules! peer_read {
        () => {{
            let item = match peer.conn.as_mut() {
                Some(w) => w.next().now_or_never(),
                None => None,
            };
            match item {
                Some(Some(Ok(f))) => {
                    let id = id_of(&f);
                    peer.unreplied.push_back(id);
                    ev(events, json!({"t":"rs","ev":"frame","c":peer.cid,"id":id}));
                    true
                }
                _ => false,
            }
        }};
    }
    macro_rules! peer_reply {
        () => {{
            match (peer.unreplied.pop_front(), peer.conn.as_mut()) {
                (Some(id), Some(w)) => {
                    let _ = w.send(Bytes::from(format!("ack:{}:{}", id, peer.cid))).now_or_never();
                    ev(events, json!({"t":"rs","ev":"reply","c":peer.cid,"id":id}));
                    true
                }
                _ => false,
            }
        }};
    }
    for act in beh {
        let a = act["a"].as_str().unwrap();
        match a {
            "send" => {
                let id = act["id"].as_u64().unwrap();
                let h = sender.send(addr, payload(id)).await;
                handles.insert(id, h);
                ev(events, json!({"t":"rs","ev":"send","id":id}));
            }
            "cancel" => {
                let id = act["id"].as_u64().unwrap();
                if handles.remove(&id).is_some() {
                    ev(events, json!({"t":"rs","ev":"cancel","id":id}));
                } else {
                    ev(events, json!({"t":"rs","ev":"skipped","a":a,"id":id}));
                }
            }
            "peer_read" => {
                if !peer_read!() {
                    ev(events, json!({"t":"rs","ev":"skipped","a":a}));
                }
            }
            "peer_reply" => {
                if !peer_reply!() {
                    ev(events, json!({"t":"rs","ev":"skipped","a":a}));
                }
            }
            "break" => {
                peer.conn = None;
                peer.unreplied.clear();
                ev(events, json!({"t":"rs","ev":"break","c":peer.cid}));
            }
            "refuse_on" => {
                simnet::set_refuse(Box::new(|_, _| true));
                ev(events, json!({"t":"rs","ev":"refuse_on"}));
            }
            "refuse_off" => {
                simnet::clear_refuse();
                ev(events, json!({"t":"rs","ev":"refuse_off"}));
            }
            "advance" => {
                tokio::time::advance(Duration::from_millis(61_000)).await;
                ev(events, json!({"t":"rs","ev":"advance"}));
            }
            other => panic!("unknown move {}", other),
        }
        observe!();
    }
    // stabilisation: the connection is allowed, time passes, the peer reads and answers everything
    simnet::clear_refuse();
    for _ in 0..40 {
        tokio::time::advance(Duration::from_millis(61_000)).await;
        observe!();
        let mut progress = false;
        while peer_read!() {
            progress = true;
        }
        while peer_reply!() {
            progress = true;
        }
        observe!();
        if !progress && handles.is_empty() {
            break;
        }
    }
    let open: Vec<u64> = handles.keys().cloned().collect();
    ev(events, json!({"t":"rs","ev":"final","still_open":open}));
}

/// hsverif rsender in=<schedules.ndjson> out=<trace>
pub fn rsender_main(rest: &[String]) -> i32 {
    let a = Args::parse(rest);
    let input = a.str("in", "schedules.ndjson");
    let out = a.str("out", "trace.ndjson");
    let text = std::fs::read_to_string(&input).expect("read schedules");
    let mut w = NdWriter::create(&out);
    let mut seen = std::collections::HashSet::new();
    let (mut n, mut moves) = (0usize, 0usize);
    let t0 = std::time::Instant::now();
    for line in text.lines().filter(|l| !l.trim().is_empty()).take(a.usize("limit", usize::MAX)) {
        if !seen.insert(line.to_string()) {
            continue;
        }
        let beh: Vec<Value> = serde_json::from_str(line).expect("schedule json");
        let rt = tokio::runtime::Builder::new_current_thread().enable_all().start_paused(true).build().unwrap();
        let mut events = Vec::new();
        w.write(&json!({"t":"reset"}));
        let r = std::panic::catch_unwind(std::panic::AssertUnwindSafe(|| rt.block_on(run_schedule(&beh, &mut events))));
        if r.is_err() {
            events.push(json!({"t":"rs","ev":"panic"}));
        }
        for p in crate::util::take_panics() {
            events.push(json!({"t":"rs","ev":"panic","what":p}));
        }
        for e in events {
            w.write(&e);
        }
        n += 1;
        moves += beh.len();
    }
    w.write(&json!({"t":"end"}));
    let lines = w.lines;
    w.finish();
    println!("{}", json!({"schedules":n,"moves":moves,"trace_lines":lines,"wall_s":t0.elapsed().as_secs_f64()}));
    0
}
