//! The real consensus Proposer task (spec/Proposer.tla) driven by TLC-generated schedules: the harness is the mempool (digests),
//! the core (Make / Cleanup) and the peers' receivers (acknowledgements of the broadcast block, FIFO per connection).
use crate::rig::{clone_sk, port_of, sha, Rig, RigCfg};
use crate::util::{Args, NdWriter};
use bytes::Bytes;
use consensus::verif_export::{ConsensusMessage, Proposer, ProposerMessage};
use consensus::{Block, QC};
use crypto::{Digest, SignatureService};
use futures::{FutureExt, SinkExt, StreamExt};
use network::simnet;
use serde_json::{json, Value};
use std::collections::{HashMap, VecDeque};
use tokio::sync::mpsc::channel;
use tokio_util::codec::{Framed, LengthDelimitedCodec};

async fn settle() {
    for _ in 0..120 {
        tokio::task::yield_now().await;
    }
}

async fn run_proposer(beh: &[Value], stakes: &[u32], recs: &mut Vec<Value>) {
    let n = stakes.len();
    let mut cfg = RigCfg::new(n);
    cfg.stakes = stakes.to_vec();
    cfg.real = vec![false; n];
    let rig = Rig::new(cfg);
    simnet::set_current(0);
    let (tx_mempool, rx_mempool) = channel::<Digest>(1000);
    let (tx_message, rx_message) = channel::<ProposerMessage>(1000);
    let (tx_loopback, mut rx_loopback) = channel::<Block>(1000);
    Proposer::spawn(rig.keys[0].0, rig.committee.clone(), SignatureService::new(clone_sk(&rig.keys[0].1)), rx_mempool, rx_message, tx_loopback);
    settle().await;
    let key = |d: usize| sha(&[b"proposer-digest", &(d as u64).to_le_bytes()]);
    let mut id_of: HashMap<Digest, usize> = HashMap::new();
    let mut conns: Vec<(usize, Framed<tokio::io::DuplexStream, LengthDelimitedCodec>)> = Vec::new();
    let mut unanswered: Vec<VecDeque<usize>> = vec![Default::default(); n]; // per peer: block numbers of frames not yet acknowledged
    let mut made: Vec<Vec<usize>> = Vec::new();
    let mut block_no: HashMap<Digest, usize> = HashMap::new();
    let mut round = 0u64;
    // the schedule, then a flush: every peer acknowledges what it has, one more Make, acknowledgements again
    let mut moves: Vec<Value> = beh.to_vec();
    let flush_acks = |moves: &mut Vec<Value>| {
        for _ in 0..6 {
            for p in 1..n {
                moves.push(json!({"a":"ack","p":p}));
            }
        }
    };
    flush_acks(&mut moves);
    moves.push(json!({"a":"make"}));
    flush_acks(&mut moves);
    moves.push(json!({"a":"final"}));
    for act in moves.iter() {
        let a = act["a"].as_str().unwrap();
        let mut rec = json!({"t":"pr","ev":a});
        match a {
            "digest" => {
                let d = act["d"].as_u64().unwrap() as usize;
                id_of.insert(key(d), d);
                let _ = tx_mempool.send(key(d)).await;
                rec["d"] = json!(d);
            }
            "make" => {
                round += 1;
                let _ = tx_message.send(ProposerMessage::Make(round, QC::genesis(), None)).await;
            }
            "cleanup" => {
                let ds: Vec<usize> = act["ds"].as_array().unwrap().iter().map(|x| x.as_u64().unwrap() as usize).collect();
                let _ = tx_message.send(ProposerMessage::Cleanup(ds.iter().map(|d| key(*d)).collect())).await;
                rec["ds"] = json!(ds);
            }
            "ack" => {
                let p = act["p"].as_u64().unwrap() as usize;
                let b = unanswered[p].pop_front().unwrap_or(0);
                if b != 0 {
                    if let Some((_, c)) = conns.iter_mut().find(|(q, _)| *q == p) {
                        let _ = c.send(Bytes::from("Ack")).await;
                    }
                }
                rec["p"] = json!(p);
                rec["b"] = json!(b);
            }
            "final" => {}
            other => panic!("unknown move {}", other),
        }
        settle().await;
        settle().await;
        while let Ok(b) = rx_loopback.try_recv() {
            let mut ids: Vec<usize> = b.payload.iter().map(|d| id_of.get(d).cloned().unwrap_or(0)).collect();
            ids.sort();
            made.push(ids);
            block_no.insert(b.digest_of(), made.len());
        }
        for ic in simnet::take_intercepted() {
            let (to, _) = port_of(&ic.dest);
            conns.push((to, Framed::new(ic.stream, LengthDelimitedCodec::new())));
        }
        for (to, c) in conns.iter_mut() {
            while let Some(Some(Ok(f))) = c.next().now_or_never() {
                let no = match bincode::deserialize::<ConsensusMessage>(&f) {
                    Ok(ConsensusMessage::Propose(b)) => block_no.get(&b.digest_of()).cloned().unwrap_or(usize::MAX),
                    _ => usize::MAX,
                };
                unanswered[*to].push_back(no);
            }
        }
        if a != "final" {
            recs.push(rec);
        }
        let mut o = json!({"t":"pr","ev": if a == "final" { "final" } else { "observed" },"made":made});
        let panics = crate::util::take_panics();
        if !panics.is_empty() {
            o["panic"] = json!(panics);
        }
        recs.push(o);
    }
}

trait DigestOf {
    fn digest_of(&self) -> Digest;
}
impl DigestOf for Block {
    fn digest_of(&self) -> Digest {
        use crypto::Hash as _;
        self.digest()
    }
}

/// hsverif proposer in=<schedules> out=<trace> stakes=me,p1,p2,..
pub fn main(rest: &[String]) -> i32 {
    let a = Args::parse(rest);
    let input = a.str("in", "schedules.ndjson");
    let out = a.str("out", "trace.ndjson");
    let stakes = a.list_u32("stakes").unwrap_or_else(|| vec![1, 1, 1, 1]);
    let text = std::fs::read_to_string(&input).expect("read schedules");
    let mut w = NdWriter::create(&out);
    let (mut n, mut moves) = (0usize, 0usize);
    let t0 = std::time::Instant::now();
    let mut first = true;
    for line in text.lines().filter(|l| !l.trim().is_empty()).take(a.usize("limit", usize::MAX)) {
        let beh: Vec<Value> = serde_json::from_str(line).expect("schedule json");
        let rt = tokio::runtime::Builder::new_current_thread().enable_all().start_paused(true).build().unwrap();
        let mut recs = Vec::new();
        let r = std::panic::catch_unwind(std::panic::AssertUnwindSafe(|| rt.block_on(run_proposer(&beh, &stakes, &mut recs))));
        let _ = r;
        drop(rt);
        if first {
            w.write(&json!({"t":"reset","stakes":stakes}));
            first = false;
        } else {
            w.write(&json!({"t":"reset"}));
        }
        for e in recs {
            w.write(&e);
        }
        n += 1;
        moves += beh.len();
    }
    w.write(&json!({"t":"end"}));
    let lines = w.lines;
    w.finish();
    println!("{}", json!({"schedules":n,"moves":moves,"trace_lines":lines,"wall_s":t0.elapsed().as_secs_f64()}));
    0
}
