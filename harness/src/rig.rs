//! The rig: N authorities, some of them real `Consensus` (+ optionally `Mempool`) stacks, each on its own
//! current-thread tokio runtime with a paused clock, all driven from this one thread.  The harness owns the
//! network (network::simnet switch): every frame a node writes is read here and delivered, delayed,
//! duplicated, dropped or answered by a harness-played (Byzantine / crashed) authority.
use bytes::Bytes;
use consensus::verif_export::{ConsensusMessage, Timeout, Vote};
use consensus::{Block, Committee, Consensus, Parameters, QC, TC};
use crypto::{generate_keypair, Digest, Hash as _, PublicKey, SecretKey, Signature, SignatureService};
use ed25519_dalek::{Digest as _, Sha512};
use futures::{FutureExt, SinkExt, StreamExt};
use mempool::{Committee as MCommittee, ConsensusMempoolMessage, Mempool, Parameters as MParameters};
use network::simnet;
use rand::rngs::StdRng;
use rand::SeedableRng;
use serde_json::{json, Value};
use std::collections::{BTreeMap, HashMap, VecDeque};
use std::convert::TryInto;
use std::net::SocketAddr;
use std::time::Duration;
use store::Store;
use tokio::io::DuplexStream;
use tokio::runtime::Runtime;
use tokio::sync::mpsc::{channel, Receiver, Sender};
use tokio_util::codec::{Framed, LengthDelimitedCodec};

pub type Wire = Framed<DuplexStream, LengthDelimitedCodec>;

pub fn sha(parts: &[&[u8]]) -> Digest {
    let mut hasher = Sha512::new();
    for p in parts {
        hasher.update(p);
    }
    Digest(hasher.finalize().as_slice()[..32].try_into().unwrap())
}

pub fn clone_sk(sk: &SecretKey) -> SecretKey {
    SecretKey::decode_base64(&sk.encode_base64()).unwrap()
}

#[derive(Clone, Copy, PartialEq, Eq, Debug, Hash)]
pub enum Port {
    Consensus,
    Mempool,
    Tx,
}

#[derive(Clone)]
pub struct RigCfg {
    pub n: usize,
    pub stakes: Vec<u32>,
    /// which authorities run the real stack (the others are played by the harness)
    pub real: Vec<bool>,
    pub with_mempool: bool,
    pub timeout_delay: u64,
    pub sync_retry_delay: u64,
    pub batch_size: usize,
    pub max_batch_delay: u64,
    pub key_seed: u8,
    pub tag: String,
    /// capacity of the channel on which a node hands committed blocks to the application (the harness reads it between handler runs)
    pub commit_capacity: usize,
}

impl RigCfg {
    pub fn new(n: usize) -> Self {
        Self {
            n,
            stakes: vec![1; n],
            real: vec![true; n],
            with_mempool: false,
            timeout_delay: 1_000,
            sync_retry_delay: 1_000_000,
            batch_size: 100,
            max_batch_delay: 100,
            key_seed: 0,
            tag: format!("{}", std::process::id()),
            commit_capacity: std::env::var("HSVERIF_COMMIT_CAP").ok().and_then(|x| x.parse().ok()).unwrap_or(10_000),
        }
    }
}

pub struct NodeRt {
    pub rt: Runtime,
    pub commit: Receiver<Block>,
    pub tx_m2c: Sender<Digest>,
    pub store: Store,
    pub db_path: String,
    pub alive: bool,
}

pub struct Conn {
    pub origin: usize,
    pub dest: usize,
    pub port: Port,
    pub out: Option<Wire>,     // harness end of the pipe the origin node writes into
    pub to_dest: Option<Wire>, // harness end of a direct connection to the destination listener
    /// frames handed to a real destination on this connection that its receiver must acknowledge (every mempool frame, every Propose),
    /// frames it must not acknowledge, and the replies read back so far; `broken`: the destination closed it or it was cut
    pub ackable: usize,
    pub silent: usize,
    pub replies: usize,
    pub broken: bool,
}

#[derive(Clone)]
pub struct Frame {
    pub id: u64,
    pub conn: usize,
    pub from: usize,
    pub to: usize,
    pub port: Port,
    pub data: Bytes,
}

/// Abstract identity of blocks (position in sorted key order for authors, dictionary ids for blocks).
#[derive(Default)]
pub struct BlockDict {
    pub by_digest: HashMap<Digest, usize>,
    pub info: Vec<Value>, // {"id","round","author","parent","variant"}
    pub blocks: Vec<Option<Block>>,
    variants: HashMap<(u64, i64, usize), usize>,
    pub fresh: Vec<usize>,
    /// ids of this dictionary are base+1, base+2, ... (0 is genesis); lets one trace file hold many runs
    pub base: usize,
}

pub const BASE_PORT: u16 = 9_000;

pub struct Rig {
    pub cfg: RigCfg,
    pub keys: Vec<(PublicKey, SecretKey)>, // sorted by public key: index = abstract authority
    pub committee: Committee,
    pub mcommittee: MCommittee,
    pub nodes: Vec<Option<NodeRt>>,
    pub conns: Vec<Conn>,
    pub inflight: VecDeque<Frame>,
    pub next_frame: u64,
    pub inject: HashMap<(usize, Port), Wire>,
    pub dict: BlockDict,
    pub events: Vec<Value>, // abstract trace, in order
    open_core: Vec<Option<usize>>, // per node: index into events of the open core step
    pub delivered: Vec<Vec<Block>>, // blocks read from each node's commit channel
    pub raw_hook_events: usize,
    pub panics: Vec<String>,
    pending_qc: HashMap<(usize, Digest), VecDeque<bool>>,
    pending_sig: HashMap<(usize, Digest, PublicKey), VecDeque<bool>>,
    /// proposals a real node broadcast itself whose QC is neither the genesis QC nor a certificate that verifies (judged here, outside the node)
    own_bad_qc: Vec<(usize, Digest)>,
}

pub fn port_of(addr: &SocketAddr) -> (usize, Port) {
    let p = addr.port() - BASE_PORT;
    let node = (p % 100) as usize;
    let kind = match p / 100 {
        0 => Port::Consensus,
        1 => Port::Tx,
        _ => Port::Mempool,
    };
    (node, kind)
}

pub fn addr(node: usize, port: Port) -> SocketAddr {
    let base = match port {
        Port::Consensus => 0,
        Port::Tx => 100,
        Port::Mempool => 200,
    };
    format!("127.0.0.1:{}", BASE_PORT + base + node as u16)
        .parse()
        .unwrap()
}

async fn settle(rounds: usize) {
    for _ in 0..rounds {
        tokio::task::yield_now().await;
    }
}

impl BlockDict {
    pub fn new(base: usize) -> Self {
        let mut d = BlockDict::default();
        d.base = base;
        d.by_digest.insert(Digest::default(), 0);
        d.by_digest.insert(Block::genesis().digest(), 0);
        d.info
            .push(json!({"id":0,"round":0,"author":-1,"parent":0,"variant":0}));
        d.blocks.push(Some(Block::genesis()));
        d
    }

    pub fn id_of_digest(&self, d: &Digest) -> Option<usize> {
        self.by_digest.get(d).cloned()
    }

    fn next_id(&self) -> usize {
        self.base + self.info.len()
    }

    fn ix(&self, id: usize) -> usize {
        if id == 0 {
            0
        } else {
            id - self.base
        }
    }

    pub fn block_of(&self, id: usize) -> Option<&Block> {
        self.blocks[self.ix(id)].as_ref()
    }

    pub fn info_of(&self, id: usize) -> &Value {
        &self.info[self.ix(id)]
    }

    /// The dictionary records of this run, in id order.
    pub fn records(&self) -> Vec<Value> {
        self.info
            .iter()
            .skip(1)
            .map(|v| {
                let mut v = v.clone();
                v["t"] = json!("blk");
                if let Some(o) = v.as_object_mut() {
                    o.remove("unknown");
                    if !o.contains_key("payload") {
                        o.insert("payload".to_string(), json!([]));
                    }
                }
                v
            })
            .collect()
    }

    /// Register a block description (from a hook event or built by the harness); returns its id.
    pub fn intern(
        &mut self,
        digest: Digest,
        round: u64,
        author: i64,
        parent: &Digest,
        payload_key: &str,
        block: Option<Block>,
    ) -> usize {
        if let Some(id) = self.by_digest.get(&digest).cloned() {
            let ix = self.ix(id);
            if self.blocks[ix].is_none() && block.is_some() {
                self.blocks[ix] = block;
            }
            return id;
        }
        let parent_id = match self.by_digest.get(parent) {
            Some(p) => *p,
            None => {
                // unknown parent: a placeholder whose own ancestry is unknown
                let pid = self.next_id();
                self.by_digest.insert(parent.clone(), pid);
                self.info.push(
                    json!({"id":pid,"round":-1,"author":-2,"parent":0,"variant":pid, "unknown":true}),
                );
                self.blocks.push(None);
                self.fresh.push(pid);
                pid
            }
        };
        let _ = payload_key;
        let id = self.next_id();
        let vkey = (round, author, parent_id);
        let variant = *self.variants.entry(vkey).and_modify(|v| *v += 1).or_insert(0);
        self.by_digest.insert(digest, id);
        self.info
            .push(json!({"id":id,"round":round,"author":author,"parent":parent_id,"variant":variant}));
        self.blocks.push(block);
        self.fresh.push(id);
        id
    }

    pub fn set_payload(&mut self, id: usize, payload: Value) {
        let ix = self.ix(id);
        if id != 0 {
            self.info[ix]["payload"] = payload;
        }
    }

    pub fn placeholder(&mut self, d: Digest, round_hint: i64) -> usize {
        let id = self.next_id();
        self.by_digest.insert(d, id);
        self.info
            .push(json!({"id":id,"round":round_hint,"author":-2,"parent":0,"variant":id,"unknown":true}));
        self.blocks.push(None);
        id
    }

    /// A placeholder learnt later: fill in its real description.
    pub fn refine(&mut self, id: usize, round: u64, author: i64, parent: &Digest) {
        let ix = self.ix(id);
        if self.info[ix].get("unknown").is_some() {
            let parent_id = self.by_digest.get(parent).cloned().unwrap_or(0);
            self.info[ix] =
                json!({"id":id,"round":round,"author":author,"parent":parent_id,"variant":0});
        }
    }
}

/// The leader of rounds 0..upto according to the REAL LeaderElector over the committee that a rig with this configuration uses, as abstract
/// authority indices (position in sorted key order).  Written into the trace header so that the leader-related monitors judge the code by its
/// own (deterministic, committee-only) election rather than by the model's `round mod n`.
pub fn leader_table(cfg: &RigCfg, upto: usize) -> Vec<usize> {
    let mut rng = StdRng::from_seed([cfg.key_seed; 32]);
    let mut keys: Vec<(PublicKey, SecretKey)> = (0..cfg.n).map(|_| generate_keypair(&mut rng)).collect();
    keys.sort_by(|a, b| a.0.cmp(&b.0));
    let committee = Committee::new(
        keys.iter().enumerate().map(|(i, (pk, _))| (*pk, cfg.stakes[i], addr(i, Port::Consensus))).collect(),
        1,
    );
    let elector = consensus::verif_export::LeaderElector::new(committee);
    (0..upto as u64)
        .map(|r| {
            let l = elector.get_leader(r);
            keys.iter().position(|(k, _)| *k == l).unwrap_or(usize::MAX)
        })
        .collect()
}

impl Rig {
    pub fn new(cfg: RigCfg) -> Self {
        Self::with_base(cfg, 0)
    }

    pub fn with_base(cfg: RigCfg, id_base: usize) -> Self {
        let mut rng = StdRng::from_seed([cfg.key_seed; 32]);
        let mut keys: Vec<(PublicKey, SecretKey)> =
            (0..cfg.n).map(|_| generate_keypair(&mut rng)).collect();
        keys.sort_by(|a, b| a.0.cmp(&b.0));
        let committee = Committee::new(
            keys.iter()
                .enumerate()
                .map(|(i, (pk, _))| (*pk, cfg.stakes[i], addr(i, Port::Consensus)))
                .collect(),
            1,
        );
        let mcommittee = MCommittee::new(
            keys.iter()
                .enumerate()
                .map(|(i, (pk, _))| (*pk, cfg.stakes[i], addr(i, Port::Tx), addr(i, Port::Mempool)))
                .collect(),
            1,
        );
        simnet::reset();
        simnet::install_switch();
        let mut rig = Rig {
            nodes: (0..cfg.n).map(|_| None).collect(),
            open_core: vec![None; cfg.n],
            delivered: vec![Vec::new(); cfg.n],
            cfg,
            keys,
            committee,
            mcommittee,
            conns: Vec::new(),
            inflight: VecDeque::new(),
            next_frame: 0,
            inject: HashMap::new(),
            dict: BlockDict::new(id_base),
            events: Vec::new(),
            raw_hook_events: 0,
            panics: Vec::new(),
            pending_qc: HashMap::new(),
            pending_sig: HashMap::new(),
            own_bad_qc: Vec::new(),
        };
        for i in 0..rig.cfg.n {
            if rig.cfg.real[i] {
                rig.boot(i);
            }
        }
        rig
    }

    pub fn idx_of(&self, pk: &PublicKey) -> i64 {
        self.keys
            .iter()
            .position(|(k, _)| k == pk)
            .map(|x| x as i64)
            .unwrap_or(-2)
    }

    /// public key from its hex rendering in a hook event (the default key if it is not a committee member's)
    fn key_of_hex(&self, h: &str) -> PublicKey {
        self.keys.iter().map(|(k, _)| *k).find(|k| simnet::hex(&k.0) == h).unwrap_or_default()
    }

    fn idx_of_hex(&self, h: &str) -> i64 {
        self.keys
            .iter()
            .position(|(k, _)| simnet::hex(&k.0) == h)
            .map(|x| x as i64)
            .unwrap_or(-2)
    }

    fn boot(&mut self, i: usize) {
        let rt = tokio::runtime::Builder::new_current_thread()
            .enable_all()
            .start_paused(true)
            .build()
            .unwrap();
        let base = if std::path::Path::new("/dev/shm").exists() {
            "/dev/shm".to_string()
        } else {
            std::env::temp_dir().to_string_lossy().to_string()
        };
        let path = format!("{}/hsverif_{}_{}", base, self.cfg.tag, i);
        let _ = std::fs::remove_dir_all(&path);
        let (pk, sk) = (self.keys[i].0, clone_sk(&self.keys[i].1));
        let committee = self.committee.clone();
        let mcommittee = self.mcommittee.clone();
        let cfg = self.cfg.clone();
        simnet::set_current(i);
        let p2 = path.clone();
        let (commit, tx_m2c, store) = rt.block_on(async move {
            let store = Store::new(&p2).expect("store");
            let sig = SignatureService::new(sk);
            let (tx_c2m, mut rx_c2m) = channel::<ConsensusMempoolMessage>(1000);
            let (tx_m2c, rx_m2c) = channel::<Digest>(1000);
            let (tx_commit, rx_commit) = channel(cfg.commit_capacity.max(1));
            if cfg.with_mempool {
                let mp = MParameters {
                    gc_depth: 50,
                    sync_retry_delay: cfg.sync_retry_delay,
                    sync_retry_nodes: 3,
                    batch_size: cfg.batch_size,
                    max_batch_delay: cfg.max_batch_delay,
                };
                Mempool::spawn(pk, mcommittee, mp, store.clone(), rx_c2m, tx_m2c.clone());
            } else {
                tokio::spawn(async move { while rx_c2m.recv().await.is_some() {} });
            }
            let p = Parameters {
                timeout_delay: cfg.timeout_delay,
                sync_retry_delay: cfg.sync_retry_delay,
            };
            Consensus::spawn(pk, committee, p, sig, store.clone(), rx_m2c, tx_c2m, tx_commit);
            settle(50).await;
            (rx_commit, tx_m2c, store)
        });
        self.nodes[i] = Some(NodeRt {
            rt,
            commit,
            tx_m2c,
            store,
            db_path: path,
            alive: true,
        });
        self.pump(i);
    }

    pub fn is_real(&self, i: usize) -> bool {
        self.nodes[i].as_ref().map(|n| n.alive).unwrap_or(false)
    }

    /// Stop driving a node (crash). Its runtime is dropped.
    pub fn crash(&mut self, i: usize) {
        if let Some(n) = self.nodes[i].as_mut() {
            n.alive = false;
        }
        self.rig_event(json!({"t":"rig","k":"Crash","node":i}));
    }

    pub fn rig_event(&mut self, v: Value) {
        self.events.push(v);
    }

    /// Run node i until it is quiescent; collect new connections, frames, hook events and commits.
    pub fn pump(&mut self, i: usize) {
        if !self.is_real(i) {
            return;
        }
        let mut idle = 0;
        let mut iters = 0;
        while idle < 2 && iters < 50 {
            iters += 1;
            simnet::set_current(i);
            {
                let node = self.nodes[i].as_mut().unwrap();
                let r = std::panic::catch_unwind(std::panic::AssertUnwindSafe(|| {
                    node.rt.block_on(settle(60));
                }));
                if r.is_err() {
                    self.panics.push(format!("node {} panicked while running", i));
                }
            }
            let mut progress = false;
            for ic in simnet::take_intercepted() {
                let (dest, port) = port_of(&ic.dest);
                self.conns.push(Conn {
                    origin: ic.origin,
                    dest,
                    port,
                    out: Some(Framed::new(ic.stream, LengthDelimitedCodec::new())),
                    to_dest: None,
                    ackable: 0,
                    silent: 0,
                    replies: 0,
                    broken: false,
                });
                progress = true;
            }
            for ci in 0..self.conns.len() {
                if self.conns[ci].origin != i {
                    continue;
                }
                loop {
                    let item = match self.conns[ci].out.as_mut() {
                        Some(w) => w.next().now_or_never(),
                        None => None,
                    };
                    match item {
                        Some(Some(Ok(f))) => {
                            let c = &self.conns[ci];
                            let fr = Frame {
                                id: self.next_frame,
                                conn: ci,
                                from: c.origin,
                                to: c.dest,
                                port: c.port,
                                data: f.freeze(),
                            };
                            self.next_frame += 1;
                            if fr.port == Port::Consensus {
                                if let Ok(ConsensusMessage::Propose(b)) = bincode::deserialize::<ConsensusMessage>(&fr.data) {
                                    if b.author == self.keys[fr.from].0 {
                                        let genesis = b.qc.hash == Digest::default() && b.qc.round == 0 && b.qc.votes.is_empty();
                                        let d = b.digest();
                                        if !genesis && b.qc.verify(&self.committee).is_err() && !self.own_bad_qc.iter().any(|(n, x)| *n == fr.from && *x == d) {
                                            self.own_bad_qc.push((fr.from, d));
                                        }
                                    }
                                }
                            }
                            self.inflight.push_back(fr);
                            progress = true;
                        }
                        Some(Some(Err(_))) | Some(None) => {
                            self.conns[ci].out = None;
                            break;
                        }
                        None => break,
                    }
                }
            }
            let evs = simnet::drain_events();
            if !evs.is_empty() {
                progress = true;
            }
            for line in evs {
                self.raw_hook_events += 1;
                match serde_json::from_str::<Value>(&line) {
                    Ok(v) => self.absorb(v),
                    Err(e) => self.panics.push(format!("bad hook event {}: {}", line, e)),
                }
            }
            {
                let node = self.nodes[i].as_mut().unwrap();
                while let Ok(b) = node.commit.try_recv() {
                    self.delivered[i].push(b);
                    progress = true;
                }
            }
            if progress {
                idle = 0;
            } else {
                idle += 1;
            }
        }
    }

    // ---- abstraction of hook events into step records ------------------------------------------------

    fn blk_id_from_desc(&mut self, b: &Value) -> usize {
        // register the parent first (its round is known from the QC)
        let _ = self.abs_qc(&b["qc"]);
        let digest = hex_digest(b["id"].as_str().unwrap());
        let parent = hex_digest(b["qc"]["hash"].as_str().unwrap());
        let round = b["round"].as_u64().unwrap();
        let author = self.idx_of_hex(b["author"].as_str().unwrap());
        let pk = b["payload"].to_string();
        let id = match self.dict.id_of_digest(&digest) {
            Some(id) => {
                self.dict.refine(id, round, author, &parent);
                id
            }
            None => self.dict.intern(digest, round, author, &parent, &pk, None),
        };
        self.dict.set_payload(id, b["payload"].clone());
        id
    }

    fn blk_id_from_hex(&mut self, h: &str, round_hint: i64) -> usize {
        let d = hex_digest(h);
        if let Some(id) = self.dict.id_of_digest(&d) {
            return id;
        }
        // a digest nobody has described yet (e.g. a vote for an unseen block)
        self.dict.placeholder(d, round_hint)
    }

    fn abs_tc(&self, tc: &Value) -> Value {
        if tc.is_null() {
            return json!({"round":-1,"hqr":-1});
        }
        let hqr = tc["votes"]
            .as_array()
            .unwrap()
            .iter()
            .map(|v| v[1].as_i64().unwrap_or(i64::MAX))
            .max()
            .unwrap_or(-1);
        json!({"round": tc["round"], "hqr": hqr})
    }

    fn abs_tc_full(&self, tc: &Value) -> Value {
        if tc.is_null() {
            return json!({"round":-1,"votes":[]});
        }
        let votes: Vec<Value> = tc["votes"]
            .as_array()
            .unwrap()
            .iter()
            .map(|v| json!([self.idx_of_hex(v[0].as_str().unwrap()), v[1]]))
            .collect();
        json!({"round": tc["round"], "votes": votes})
    }

    fn abs_qc(&mut self, qc: &Value) -> Value {
        let id = self.blk_id_from_hex(qc["hash"].as_str().unwrap(), qc["round"].as_i64().unwrap_or(i64::MAX));
        let signers: Vec<i64> = qc["signers"]
            .as_array()
            .unwrap()
            .iter()
            .map(|s| self.idx_of_hex(s.as_str().unwrap()))
            .collect();
        json!({"blk": id, "round": qc["round"], "signers": signers})
    }

    fn flush_fresh(&mut self) {
        self.dict.fresh.clear();
    }

    fn absorb(&mut self, e: Value) {
        let node = e["node"].as_i64().unwrap_or(-1);
        if node < 0 {
            return;
        }
        let n = node as usize;
        let ev = e["ev"].as_str().unwrap_or("").to_string();
        let core_effect = |rig: &mut Rig, eff: Value| {
            if let Some(ix) = rig.open_core[n] {
                rig.events[ix]["out"].as_array_mut().unwrap().push(eff);
            } else {
                rig.events
                    .push(json!({"t":"stray","node":n,"eff":eff}));
            }
        };
        match ev.as_str() {
            "Boot" => {
                self.events
                    .push(json!({"t":"core","node":n,"k":"Boot","in":{},"out":[],"ok":true,"err":"","st":Value::Null}));
                self.open_core[n] = Some(self.events.len() - 1);
                // Boot has no Done: the state is the initial one; closed by the first In/Process or left open
                let st = self.abs_st(&e["st"]);
                let ix = self.open_core[n].unwrap();
                self.events[ix]["st"] = st;
            }
            "In" | "Process" => {
                let nested = match self.open_core[n] {
                    Some(ix) => self.events[ix]["k"] != "Boot" ,
                    None => false,
                };
                if ev == "Process" && nested {
                    // process_block inside handle_proposal: nothing to record (the proposal is the input)
                    let id = self.blk_id_from_desc(&e["b"]);
                    let _ = id;
                    return;
                }
                if ev == "In" && nested {
                    // handle_vote from process_block (own vote) or handle_timeout from the local timer
                    return;
                }
                let (k, input) = match (ev.as_str(), e["k"].as_str().unwrap_or("")) {
                    ("Process", _) => {
                        let id = self.blk_id_from_desc(&e["b"]);
                        let qc = self.abs_qc(&e["b"]["qc"]);
                        ("Loopback", json!({"blk":id,"tc":self.abs_tc(&e["b"]["tc"]), "qc": qc, "tcfull": self.abs_tc_full(&e["b"]["tc"])}))
                    }
                    (_, "Propose") => {
                        let id = self.blk_id_from_desc(&e["b"]);
                        let qc = self.abs_qc(&e["b"]["qc"]);
                        let mut input = json!({"blk":id,"tc":self.abs_tc(&e["b"]["tc"]), "qc": qc, "tcfull": self.abs_tc_full(&e["b"]["tc"]), "npayload": e["b"]["payload"].as_array().map(|a| a.len()).unwrap_or(0)});
                        let dg = hex_digest(e["b"]["id"].as_str().unwrap());
                        if let Some(q) = self.pending_qc.get_mut(&(n, dg)) {
                            if let Some(ok) = q.pop_front() {
                                input["qc_ok"] = json!(ok);
                            }
                        }
                        ("Propose", input)
                    }
                    (_, "Vote") => {
                        let id = self.blk_id_from_hex(e["v"]["hash"].as_str().unwrap(), e["v"]["round"].as_i64().unwrap_or(i64::MAX));
                        let mut input = json!({"blk":id,"round":e["v"]["round"],"author":self.idx_of_hex(e["v"]["author"].as_str().unwrap())});
                        // the harness's own verdict on the signature of this delivery (see note_propose)
                        let vd = Vote { hash: hex_digest(e["v"]["hash"].as_str().unwrap()), round: e["v"]["round"].as_u64().unwrap_or(0),
                                        author: PublicKey::default(), signature: Signature::default() }.digest();
                        let who = self.key_of_hex(e["v"]["author"].as_str().unwrap());
                        if let Some(q) = self.pending_sig.get_mut(&(n, vd, who)) {
                            if let Some(ok) = q.pop_front() {
                                input["sig_ok"] = json!(ok);
                            }
                        }
                        ("Vote", input)
                    }
                    (_, "Timeout") => {
                        let qc = self.abs_qc(&e["t"]["high_qc"]);
                        let mut input = json!({"round":e["t"]["round"],"author":self.idx_of_hex(e["t"]["author"].as_str().unwrap()),"hq":qc["blk"],"hqr":qc["round"],"qc":qc});
                        let td = Self::timeout_digest(e["t"]["round"].as_u64().unwrap_or(0), e["t"]["high_qc"]["round"].as_u64().unwrap_or(0));
                        let who = self.key_of_hex(e["t"]["author"].as_str().unwrap());
                        if let Some(q) = self.pending_sig.get_mut(&(n, td, who)) {
                            if let Some(ok) = q.pop_front() {
                                input["sig_ok"] = json!(ok);
                            }
                        }
                        ("Timeout", input)
                    }
                    (_, "TC") => ("TC", json!({"tc": self.abs_tc(&e["tc"]), "tcfull": self.abs_tc_full(&e["tc"])})),
                    (_, "Timer") => ("Timer", json!({"round": e["round"]})),
                    (_, other) => (Box::leak(other.to_string().into_boxed_str()) as &str, json!({})),
                };
                self.flush_fresh();
                self.events
                    .push(json!({"t":"core","node":n,"k":k,"in":input,"out":[],"ok":true,"err":"","st":Value::Null}));
                self.open_core[n] = Some(self.events.len() - 1);
            }
            "Done" => {
                if let Some(ix) = self.open_core[n].take() {
                    let st = self.abs_st(&e["st"]);
                    self.events[ix]["st"] = st;
                    self.events[ix]["ok"] = e["ok"].clone();
                    self.events[ix]["err"] = e["err"].clone();
                }
            }
            "Vote" => {
                let id = self.blk_id_from_hex(e["blk"].as_str().unwrap(), e["round"].as_i64().unwrap_or(i64::MAX));
                core_effect(self, json!({"k":"vote","blk":id}));
            }
            "Commit" => {
                let id = self.blk_id_from_hex(e["blk"].as_str().unwrap(), e["round"].as_i64().unwrap_or(i64::MAX));
                core_effect(self, json!({"k":"commit","blk":id}));
            }
            "TimeoutMade" => {
                let qc = self.abs_qc(&e["t"]["high_qc"]);
                core_effect(self, json!({"k":"timeout","round":e["t"]["round"],"hq":qc["blk"]}));
            }
            "QCMade" => {
                let qc = self.abs_qc(&e["qc"]);
                core_effect(self, json!({"k":"qc","blk":qc["blk"],"signers":qc["signers"],"round":qc["round"]}));
            }
            "TCMade" => {
                let tc = self.abs_tc(&e["tc"]);
                let full = self.abs_tc_full(&e["tc"]);
                core_effect(self, json!({"k":"tcmade","tc":tc,"full":full}));
            }
            "Round" => core_effect(self, json!({"k":"round","round":e["round"]})),
            "Make" => {
                let qc = self.abs_qc(&e["qc"]);
                let tc = self.abs_tc(&e["tc"]);
                core_effect(self, json!({"k":"make","round":e["round"],"qc":qc["blk"],"tc":tc}));
            }
            "Parked" => {
                let id = self.blk_id_from_hex(e["blk"].as_str().unwrap(), -1);
                core_effect(self, json!({"k":"park","blk":id}));
            }
            "Stored" => {
                let id = self.blk_id_from_hex(e["blk"].as_str().unwrap(), -1);
                core_effect(self, json!({"k":"store","blk":id}));
            }
            "PayloadMissing" => {
                let id = self.blk_id_from_hex(e["blk"].as_str().unwrap(), -1);
                core_effect(self, json!({"k":"paywait","blk":id}));
            }
            "Proposed" => {
                let id = self.blk_id_from_desc(&e["b"]);
                let qc = self.abs_qc(&e["b"]["qc"]);
                let tc = self.abs_tc(&e["b"]["tc"]);
                self.flush_fresh();
                self.events.push(json!({"t":"task","node":n,"k":"Proposed","blk":id,"tc":tc,"qc":qc["blk"],"round":e["b"]["round"],
                    "npayload": e["b"]["payload"].as_array().map(|a| a.len()).unwrap_or(0), "payload": e["b"]["payload"]}));
            }
            "SyncResume" | "PayloadResume" => {
                let id = self.blk_id_from_hex(e["blk"].as_str().unwrap(), -1);
                self.events.push(json!({"t":"task","node":n,"k":ev,"blk":id}));
            }
            "SyncRequest" => {
                let id = self.blk_id_from_hex(e["digest"].as_str().unwrap(), -1);
                self.events.push(json!({"t":"task","node":n,"k":ev,"blk":id,"to":self.idx_of_hex(e["to"].as_str().unwrap())}));
            }
            "SyncRetry" => {
                let id = self.blk_id_from_hex(e["digest"].as_str().unwrap(), -1);
                self.events.push(json!({"t":"task","node":n,"k":ev,"blk":id}));
            }
            "SyncReply" => {
                let id = self.blk_id_from_hex(e["digest"].as_str().unwrap(), -1);
                self.events.push(json!({"t":"task","node":n,"k":ev,"blk":id,"to":self.idx_of_hex(e["to"].as_str().unwrap())}));
            }
            _ => {
                // mempool-side events are passed through unchanged
                let mut v = e.clone();
                v["t"] = json!("mp");
                v["k"] = json!(ev);
                self.events.push(v);
            }
        }
        self.flush_fresh();
    }

    fn abs_st(&mut self, st: &Value) -> Value {
        let hq = self.blk_id_from_hex(st["hq"].as_str().unwrap(), st["hqr"].as_i64().unwrap_or(i64::MAX));
        json!({"r":st["r"],"lv":st["lv"],"lc":st["lc"],"hqr":st["hqr"],"hq":hq})
    }

    // ---- network operations --------------------------------------------------------------------------

    /// Hand a frame to its destination (if real) and run it; relays whatever the destination writes back
    /// (ACKs) unless `relay_reply` is false. Returns the replies.
    pub fn deliver(&mut self, f: &Frame, relay_reply: bool) -> Vec<Bytes> {
        let mut replies = Vec::new();
        if !self.is_real(f.to) {
            return replies;
        }
        let ci = f.conn;
        if self.conns[ci].to_dest.is_none() {
            match simnet::connect_direct(addr(f.to, f.port)) {
                Ok(s) => self.conns[ci].to_dest = Some(Framed::new(s, LengthDelimitedCodec::new())),
                Err(_) => return replies,
            }
        }
        if f.port == Port::Consensus {
            self.note_propose(f.to, &f.data);
        }
        let sent = self.conns[ci]
            .to_dest
            .as_mut()
            .unwrap()
            .send(f.data.clone())
            .now_or_never();
        if !matches!(sent, Some(Ok(()))) {
            self.conns[ci].to_dest = None;
            self.conns[ci].broken = true;
            return replies;
        }
        {
            let must_ack = match f.port {
                Port::Mempool => true,
                Port::Consensus => matches!(bincode::deserialize::<ConsensusMessage>(&f.data), Ok(ConsensusMessage::Propose(_))),
                Port::Tx => false,
            };
            // a frame the receiver cannot decode ends the connection on the consensus port: no statement about such connections
            let decodable = match f.port {
                Port::Consensus => bincode::deserialize::<ConsensusMessage>(&f.data).is_ok(),
                _ => true,
            };
            if !decodable {
                self.conns[ci].broken = true;
            }
            if must_ack {
                self.conns[ci].ackable += 1;
            } else {
                self.conns[ci].silent += 1;
            }
        }
        self.pump(f.to);
        loop {
            let item = match self.conns[ci].to_dest.as_mut() {
                Some(w) => w.next().now_or_never(),
                None => None,
            };
            match item {
                Some(Some(Ok(r))) => replies.push(r.freeze()),
                Some(Some(Err(_))) | Some(None) => {
                    self.conns[ci].to_dest = None;
                    self.conns[ci].broken = true;
                    break;
                }
                None => break,
            }
        }
        self.conns[ci].replies += replies.len();
        if relay_reply && f.port == Port::Mempool && !replies.is_empty() {
            // an acknowledgement travels back to the sender of a mempool frame (recorded for the C12 monitor)
            let d = sha(&[&f.data]);
            self.events.push(json!({"t":"mp","k":"BatchAck","node":f.from,"by":f.to,"digest":simnet::hex(&d.0)}));
        }
        if relay_reply {
            for r in &replies {
                if let Some(w) = self.conns[ci].out.as_mut() {
                    let _ = w.send(r.clone()).now_or_never();
                }
            }
            if !replies.is_empty() {
                self.pump(f.from);
            }
        }
        replies
    }

    /// Answer a frame on behalf of a harness-played destination with an "Ack".
    pub fn ack(&mut self, f: &Frame) {
        if let Some(w) = self.conns[f.conn].out.as_mut() {
            let _ = w.send(Bytes::from("Ack")).now_or_never();
        }
        self.pump(f.from);
    }

    /// Cut every connection from or to a node (the transports on both sides see EOF / broken pipe).
    pub fn cut_node(&mut self, x: usize) {
        for c in self.conns.iter_mut() {
            if c.origin == x || c.dest == x {
                c.out = None;
                c.to_dest = None;
            }
        }
        self.inject.retain(|(to, _), _| *to != x);
    }

    /// Cut the connection a frame travelled on (both directions).
    pub fn cut(&mut self, conn: usize) {
        self.conns[conn].out = None;
        self.conns[conn].to_dest = None;
        self.conns[conn].broken = true;
    }

    /// Send bytes from the harness to a node's listener.
    pub fn inject_bytes(&mut self, to: usize, port: Port, data: Bytes) -> bool {
        if !self.is_real(to) {
            return false;
        }
        if !self.inject.contains_key(&(to, port)) {
            match simnet::connect_direct(addr(to, port)) {
                Ok(s) => {
                    self.inject
                        .insert((to, port), Framed::new(s, LengthDelimitedCodec::new()));
                }
                Err(_) => return false,
            }
        }
        if port == Port::Consensus {
            self.note_propose(to, &data);
        }
        let ok = matches!(
            self.inject
                .get_mut(&(to, port))
                .unwrap()
                .send(data)
                .now_or_never(),
            Some(Ok(()))
        );
        if !ok {
            self.inject.remove(&(to, port));
        }
        self.pump(to);
        // sink replies
        if let Some(w) = self.inject.get_mut(&(to, port)) {
            loop {
                match w.next().now_or_never() {
                    Some(Some(Ok(_))) => continue,
                    Some(Some(Err(_))) | Some(None) => {
                        self.inject.remove(&(to, port));
                        break;
                    }
                    None => break,
                }
            }
        }
        ok
    }

    /// Every proposal that travels to a real node is inspected by the harness: is the QC it carries the exact genesis QC, or a
    /// certificate of the parent's round that verifies under the committee (the QC's own `verify`, called here, outside the node)?
    /// The verdict is attached to the node's handler record of that delivery (`in.qc_ok`); the C05 monitor requires that a block whose
    /// processing triggers a commit reached the node with a valid certificate at least once.  (Block::digest does not cover the QC's
    /// round and votes, so a forged copy and a genuine copy of a block share the digest: the verdict is per delivery, not per block.)
    fn note_propose(&mut self, to: usize, data: &[u8]) {
        if let Ok(ConsensusMessage::Propose(b)) = bincode::deserialize::<ConsensusMessage>(data) {
            let exact_genesis = b.qc.hash == Digest::default() && b.qc.round == 0 && b.qc.votes.is_empty();
            let parent_round_ok = match self.dict.id_of_digest(&b.qc.hash) {
                Some(0) => b.qc.round == 0,
                Some(id) => {
                    let r = self.dict.info_of(id)["round"].as_i64().unwrap_or(-1);
                    r < 0 || r as u64 == b.qc.round
                }
                None => true,
            };
            let ok = exact_genesis || (parent_round_ok && b.qc.verify(&self.committee).is_ok());
            self.pending_qc.entry((to, b.digest())).or_default().push_back(ok);
        }
        // likewise for votes and timeouts: does the signature verify (Vote::verify / Timeout::verify called here, outside the node)?
        // The C19 monitors count a vote / timeout as "received" only if it reached the node correctly signed.
        match bincode::deserialize::<ConsensusMessage>(data) {
            Ok(ConsensusMessage::Vote(v)) => {
                let ok = v.verify(&self.committee).is_ok();
                self.pending_sig.entry((to, v.digest(), v.author)).or_default().push_back(ok);
            }
            Ok(ConsensusMessage::Timeout(t)) => {
                let ok = t.verify(&self.committee).is_ok();
                self.pending_sig.entry((to, t.digest(), t.author)).or_default().push_back(ok);
            }
            _ => (),
        }
    }

    pub fn inject_msg(&mut self, to: usize, m: &ConsensusMessage) -> bool {
        let data = Bytes::from(bincode::serialize(m).unwrap());
        self.inject_bytes(to, Port::Consensus, data)
    }

    /// Write a value straight into node i's store (e.g. to make a batch available).
    pub fn store_write(&mut self, i: usize, key: Vec<u8>, value: Vec<u8>) {
        if !self.is_real(i) {
            return;
        }
        simnet::set_current(i);
        let node = self.nodes[i].as_mut().unwrap();
        let mut store = node.store.clone();
        let hexkey = simnet::hex(&key);
        node.rt.block_on(async move {
            store.write(key, value).await;
            settle(5).await;
        });
        // recorded like the Processor's hook: the node's store now holds this key
        self.events.push(json!({"t":"mp","k":"BatchStored","node":i,"digest":hexkey,"by":"harness"}));
    }

    /// Read a value from node i's store.
    pub fn store_read(&mut self, i: usize, key: Vec<u8>) -> Option<Vec<u8>> {
        if !self.is_real(i) {
            return None;
        }
        simnet::set_current(i);
        let node = self.nodes[i].as_mut().unwrap();
        let mut store = node.store.clone();
        node.rt.block_on(async move { store.read(key).await.ok().flatten() })
    }

    /// Advance node i's clock.
    pub fn advance(&mut self, i: usize, ms: u64) {
        if !self.is_real(i) {
            return;
        }
        simnet::set_current(i);
        {
            let node = self.nodes[i].as_mut().unwrap();
            let r = std::panic::catch_unwind(std::panic::AssertUnwindSafe(|| {
                node.rt.block_on(async {
                    tokio::time::advance(Duration::from_millis(ms)).await;
                    settle(10).await;
                });
            }));
            if r.is_err() {
                self.panics.push(format!("node {} panicked while running", i));
            }
        }
        self.pump(i);
    }

    pub fn fire_timer(&mut self, i: usize) {
        self.rig_event(json!({"t":"rig","k":"Fire","node":i}));
        let d = self.cfg.timeout_delay + 1;
        self.advance(i, d);
    }

    pub fn take_frames(&mut self) -> Vec<Frame> {
        self.inflight.drain(..).collect()
    }

    pub fn decode(f: &Frame) -> Option<ConsensusMessage> {
        if f.port != Port::Consensus {
            return None;
        }
        bincode::deserialize::<ConsensusMessage>(&f.data).ok()
    }

    // ---- harness-held keys: building protocol messages ------------------------------------------------

    pub fn sign(&self, who: usize, d: &Digest) -> Signature {
        Signature::new(d, &self.keys[who].1)
    }

    pub fn make_qc(&self, hash: &Digest, round: u64, signers: &[usize]) -> QC {
        let qc = QC {
            hash: hash.clone(),
            round,
            votes: Vec::new(),
        };
        let d = qc.digest();
        let votes = signers
            .iter()
            .map(|i| (self.keys[*i].0, self.sign(*i, &d)))
            .collect();
        QC { votes, ..qc }
    }

    /// The digest a timeout for (round, high-QC round) is signed over -- computed by the code under test, so that a change
    /// of the digest layout in the repository is followed instead of producing invalid signatures here.
    pub fn timeout_digest(round: u64, hqr: u64) -> Digest {
        Timeout {
            high_qc: QC { hash: Digest::default(), round: hqr, votes: Vec::new() },
            round,
            author: PublicKey::default(),
            signature: Signature::default(),
        }
        .digest()
    }

    pub fn make_tc(&self, round: u64, entries: &[(usize, u64)]) -> TC {
        let votes = entries
            .iter()
            .map(|(i, hqr)| {
                let d = Self::timeout_digest(round, *hqr);
                (self.keys[*i].0, self.sign(*i, &d), *hqr)
            })
            .collect();
        TC { round, votes }
    }

    pub fn make_block(&self, author: usize, round: u64, qc: QC, tc: Option<TC>, payload: Vec<Digest>) -> Block {
        let mut b = Block {
            qc,
            tc,
            author: self.keys[author].0,
            round,
            payload,
            signature: Signature::default(),
        };
        b.signature = self.sign(author, &b.digest());
        b
    }

    pub fn make_vote(&self, author: usize, hash: &Digest, round: u64) -> Vote {
        let mut v = Vote {
            hash: hash.clone(),
            round,
            author: self.keys[author].0,
            signature: Signature::default(),
        };
        v.signature = self.sign(author, &v.digest());
        v
    }

    pub fn make_timeout(&self, author: usize, round: u64, high_qc: QC) -> Timeout {
        let mut t = Timeout {
            high_qc,
            round,
            author: self.keys[author].0,
            signature: Signature::default(),
        };
        t.signature = self.sign(author, &t.digest());
        t
    }

    /// The abstract trace of this run: block dictionary first, then the events in order.
    pub fn trace_records(&self) -> Vec<Value> {
        let mut v = self.dict.records();
        v.extend(self.events.iter().cloned());
        // the receiver's side of the reliable sender's contract, per connection into a real node: one reply per frame that must be
        // acknowledged, none for the others (connections that broke, were cut, or lead to a crashed node make no statement)
        // C05: a node's own proposal loops back into process_block without passing Block::verify -- its certificate is judged here
        for (i, d) in &self.own_bad_qc {
            if let Some(id) = self.dict.id_of_digest(d) {
                v.push(json!({"t":"rig","k":"OwnProposalBadQC","node":i,"blk":id}));
            }
        }
        // what each real node handed to the application on its commit channel (the hook's Commit events are emitted before the hand-over)
        for i in 0..self.cfg.n {
            if self.nodes.get(i).and_then(|x| x.as_ref()).is_some() {
                let ids: Vec<i64> = self.delivered[i].iter().map(|b| self.dict.id_of_digest(&b.digest()).map(|x| x as i64).unwrap_or(-1)).collect();
                v.push(json!({"t":"rig","k":"CommitChannel","node":i,"blocks":ids}));
            }
        }
        for (ci, c) in self.conns.iter().enumerate() {
            if c.ackable + c.silent == 0 || c.broken || c.to_dest.is_none() {
                continue;
            }
            let alive = self.nodes.get(c.dest).and_then(|n| n.as_ref()).map(|n| n.alive).unwrap_or(false);
            if !alive {
                continue;
            }
            let port = match c.port { Port::Consensus => "consensus", Port::Mempool => "mempool", Port::Tx => "tx" };
            v.push(json!({"t":"net","k":"ConnTotals","conn":ci,"node":c.dest,"from":c.origin,"port":port,"ackable":c.ackable,"silent":c.silent,"replies":c.replies}));
        }
        v
    }

    pub fn next_id_base(&self) -> usize {
        self.dict.base + self.dict.info.len() - 1
    }

    pub fn cleanup(&mut self) {
        for n in self.nodes.iter_mut() {
            if let Some(n) = n.take() {
                let p = n.db_path.clone();
                drop(n);
                let _ = std::fs::remove_dir_all(&p);
            }
        }
    }
}

impl Drop for Rig {
    fn drop(&mut self) {
        self.cleanup();
    }
}

pub fn hex_digest(h: &str) -> Digest {
    let mut out = [0u8; 32];
    let b = h.as_bytes();
    for i in 0..32 {
        let hi = (b[2 * i] as char).to_digit(16).unwrap() as u8;
        let lo = (b[2 * i + 1] as char).to_digit(16).unwrap() as u8;
        out[i] = (hi << 4) | lo;
    }
    Digest(out)
}

pub fn stats_by_kind(events: &[Value]) -> BTreeMap<String, usize> {
    let mut m = BTreeMap::new();
    for e in events {
        let k = format!(
            "{}:{}",
            e["t"].as_str().unwrap_or("?"),
            e["k"].as_str().unwrap_or("")
        );
        *m.entry(k).or_insert(0) += 1;
    }
    m
}
