use serde_json::Value;
use std::collections::HashMap;
use std::io::Write;
use std::sync::Mutex;

static PANICS: Mutex<Vec<String>> = Mutex::new(Vec::new());

pub fn record_panic(s: String) {
    if let Ok(mut g) = PANICS.lock() {
        g.push(s);
    }
}

pub fn take_panics() -> Vec<String> {
    match PANICS.lock() {
        Ok(mut g) => std::mem::take(&mut *g),
        Err(p) => std::mem::take(&mut *p.into_inner()),
    }
}

/// key=value arguments
pub struct Args(pub HashMap<String, String>);

impl Args {
    pub fn parse(rest: &[String]) -> Self {
        let mut m = HashMap::new();
        for a in rest {
            if let Some(p) = a.find('=') {
                m.insert(a[..p].to_string(), a[p + 1..].to_string());
            } else {
                m.insert(a.clone(), "1".to_string());
            }
        }
        Args(m)
    }
    pub fn str(&self, k: &str, d: &str) -> String {
        self.0.get(k).cloned().unwrap_or_else(|| d.to_string())
    }
    pub fn u64(&self, k: &str, d: u64) -> u64 {
        self.0.get(k).and_then(|x| x.parse().ok()).unwrap_or(d)
    }
    pub fn usize(&self, k: &str, d: usize) -> usize {
        self.0.get(k).and_then(|x| x.parse().ok()).unwrap_or(d)
    }
    pub fn f64(&self, k: &str, d: f64) -> f64 {
        self.0.get(k).and_then(|x| x.parse().ok()).unwrap_or(d)
    }
    pub fn list_u32(&self, k: &str) -> Option<Vec<u32>> {
        self.0
            .get(k)
            .map(|s| s.split(',').filter(|x| !x.is_empty()).map(|x| x.parse().unwrap()).collect())
    }
    pub fn list_usize(&self, k: &str) -> Vec<usize> {
        self.0
            .get(k)
            .map(|s| s.split(',').filter(|x| !x.is_empty()).map(|x| x.parse().unwrap()).collect())
            .unwrap_or_default()
    }
}

pub struct NdWriter {
    f: std::io::BufWriter<std::fs::File>,
    pub lines: usize,
}

impl NdWriter {
    pub fn create(path: &str) -> Self {
        Self {
            f: std::io::BufWriter::new(std::fs::File::create(path).expect("create trace file")),
            lines: 0,
        }
    }
    pub fn write(&mut self, v: &Value) {
        writeln!(self.f, "{}", v).unwrap();
        self.lines += 1;
    }
    pub fn finish(mut self) {
        self.f.flush().unwrap();
    }
}

/// Small deterministic RNG wrapper (seeded from VERIF_SEED by the callers).
pub struct Rng(pub rand::rngs::StdRng);

impl Rng {
    pub fn new(seed: u64) -> Self {
        use rand::SeedableRng;
        Rng(rand::rngs::StdRng::seed_from_u64(seed))
    }
    pub fn below(&mut self, n: usize) -> usize {
        use rand::Rng as _;
        if n == 0 {
            0
        } else {
            self.0.gen_range(0, n)
        }
    }
    pub fn chance(&mut self, p: f64) -> bool {
        use rand::Rng as _;
        self.0.gen::<f64>() < p
    }
}
