//! C04: the mutation matrix of Verify.tla instantiated with real keys.  Every abstract case (a message whose
//! signatures are records of what was signed and with which key) is turned into a concrete message, the real
//! verify() is called, and rejected cases are also injected into a running real node to observe that nothing
//! changes.  Output: one trace record per case, validated by TLC (TraceVerify.tla).
use crate::rig::{sha, Rig, RigCfg};
use crate::util::{Args, NdWriter, Rng};
use consensus::verif_export::{ConsensusMessage, Timeout, Vote};
use consensus::{Block, Committee, QC, TC};
use crypto::{generate_keypair, Digest, Hash as _, PublicKey, SecretKey, Signature};
#[allow(unused_imports)]
use crypto::Hash;
use rand::rngs::StdRng;
use rand::SeedableRng;
use serde_json::{json, Value};

struct Ctx {
    keys: Vec<(PublicKey, SecretKey)>, // members 0..n-1 (rig order) followed by two outsiders
    nmembers: usize,
}

fn blk_digest(b: i64) -> Digest {
    if b == 0 {
        Digest::default()
    } else {
        sha(&[b"vblk", &b.to_le_bytes()])
    }
}

fn payload_of(p: i64) -> Vec<Digest> {
    (0..p.max(0)).map(|k| sha(&[b"vpayload", &k.to_le_bytes()])).collect()
}

impl Ctx {
    fn pk(&self, k: i64) -> PublicKey {
        // abstract key ids beyond the known keys (a mutated author field) wrap around: still a different key
        self.keys[(k as usize) % self.keys.len()].0
    }

    /// the digest an abstract signature was made over
    fn signed_digest(&self, sig: &Value) -> Digest {
        let c = &sig["content"];
        let g = |i: usize| c[i].as_i64().unwrap();
        // digests are computed by the code under test (a layout change in the repository is followed, not flagged here)
        match sig["kind"].as_str().unwrap() {
            "vote" => Vote {
                hash: blk_digest(g(0)),
                round: g(1) as u64,
                author: PublicKey::default(),
                signature: Signature::default(),
            }
            .digest(),
            "timeout" => Rig::timeout_digest(g(0) as u64, g(1) as u64),
            "block" => Block {
                qc: QC { hash: blk_digest(g(3)), round: 0, votes: Vec::new() },
                tc: None,
                author: self.pk(g(0)),
                round: g(1) as u64,
                payload: payload_of(g(2)),
                signature: Signature::default(),
            }
            .digest(),
            other => panic!("unknown signature kind {}", other),
        }
    }

    fn sig(&self, sig: &Value, salt: u64) -> Signature {
        let d = self.signed_digest(sig);
        let s = Signature::new(&d, &self.keys[sig["key"].as_u64().unwrap() as usize].1);
        if sig["ok"].as_bool().unwrap() {
            return s;
        }
        // one flipped bit (position derived from the case)
        let mut bytes = bincode::serialize(&s).unwrap();
        let bit = (salt % (bytes.len() as u64 * 8)) as usize;
        bytes[bit / 8] ^= 1 << (bit % 8);
        bincode::deserialize(&bytes).unwrap()
    }

    fn qc(&self, q: &Value, salt: u64) -> QC {
        QC {
            hash: blk_digest(q["blk"].as_i64().unwrap()),
            round: q["round"].as_u64().unwrap(),
            votes: q["votes"]
                .as_array()
                .unwrap()
                .iter()
                .map(|v| (self.pk(v["signer"].as_i64().unwrap()), self.sig(&v["sig"], salt)))
                .collect(),
        }
    }

    fn tc(&self, t: &Value, salt: u64) -> Option<TC> {
        if t["round"].as_i64().unwrap() < 0 {
            return None;
        }
        Some(TC {
            round: t["round"].as_u64().unwrap(),
            votes: t["entries"]
                .as_array()
                .unwrap()
                .iter()
                .map(|e| (self.pk(e["signer"].as_i64().unwrap()), self.sig(&e["sig"], salt), e["hqr"].as_u64().unwrap()))
                .collect(),
        })
    }

    fn vote(&self, o: &Value, salt: u64) -> Vote {
        Vote {
            hash: blk_digest(o["blk"].as_i64().unwrap()),
            round: o["round"].as_u64().unwrap(),
            author: self.pk(o["author"].as_i64().unwrap()),
            signature: self.sig(&o["sig"], salt),
        }
    }

    fn timeout(&self, o: &Value, salt: u64) -> Timeout {
        Timeout {
            high_qc: self.qc(&o["hq"], salt),
            round: o["round"].as_u64().unwrap(),
            author: self.pk(o["author"].as_i64().unwrap()),
            signature: self.sig(&o["sig"], salt),
        }
    }

    fn block(&self, o: &Value, salt: u64) -> Block {
        Block {
            qc: self.qc(&o["parent"], salt),
            tc: self.tc(&o["tc"], salt),
            author: self.pk(o["author"].as_i64().unwrap()),
            round: o["round"].as_u64().unwrap(),
            payload: payload_of(o["payload"].as_i64().unwrap()),
            signature: self.sig(&o["sig"], salt),
        }
    }
}

fn verdict<F: FnOnce() -> bool>(f: F) -> (bool, bool) {
    match std::panic::catch_unwind(std::panic::AssertUnwindSafe(f)) {
        Ok(v) => (v, false),
        Err(_) => (false, true),
    }
}

/// hsverif verify in=<cases.ndjson> out=<trace> stakes=.. inject=N seed=S
pub fn main(rest: &[String]) -> i32 {
    let a = Args::parse(rest);
    let input = a.str("in", "cases.ndjson");
    let out = a.str("out", "trace.ndjson");
    let stakes = a.list_u32("stakes").unwrap_or_else(|| vec![1, 1, 1, 1]);
    let n = stakes.len();
    let inject_budget = a.usize("inject", 100);
    let seed = a.u64("seed", 1);
    let tag = a.str("tag", &format!("{}", std::process::id()));
    let mut rng = Rng::new(seed);
    let text = std::fs::read_to_string(&input).expect("read cases");
    let cases: Vec<Value> = text.lines().filter(|l| !l.trim().is_empty()).map(|l| serde_json::from_str(l).unwrap()).collect();
    let mut w = NdWriter::create(&out);
    w.write(&json!({"t":"reset","stakes":stakes}));
    // keys: the rig's committee keys + two outsiders
    let mk_cfg = |real_me: Option<usize>| {
        let mut cfg = RigCfg::new(n);
        cfg.stakes = stakes.clone();
        cfg.real = (0..n).map(|i| Some(i) == real_me).collect();
        cfg.key_seed = 3;
        cfg.tag = tag.clone();
        cfg
    };
    let base = Rig::new(mk_cfg(None));
    let mut ko = StdRng::from_seed([77; 32]);
    let mut keys: Vec<(PublicKey, SecretKey)> = base.keys.iter().map(|(p, s)| (*p, crate::rig::clone_sk(s))).collect();
    keys.push(generate_keypair(&mut ko));
    keys.push(generate_keypair(&mut ko));
    let ctx = Ctx { keys, nmembers: n };
    let _ = ctx.nmembers;
    let committee: Committee = base.committee.clone();
    drop(base);
    // which rejected cases get injected into a live node
    let injectable: Vec<usize> = (0..cases.len()).filter(|i| cases[*i]["kind"] != "qc").collect();
    let mut chosen = std::collections::HashSet::new();
    if injectable.len() <= inject_budget {
        chosen.extend(injectable.iter().cloned());
    } else {
        while chosen.len() < inject_budget {
            chosen.insert(injectable[rng.below(injectable.len())]);
        }
    }
    let (mut accepted_n, mut injected_n) = (0usize, 0usize);
    let t0 = std::time::Instant::now();
    for (ci, c) in cases.iter().enumerate() {
        let salt = seed.wrapping_mul(31).wrapping_add(ci as u64 * 7 + 1);
        let o = &c["obj"];
        let kind = c["kind"].as_str().unwrap();
        let (acc, panicked) = match kind {
            "vote" => verdict(|| ctx.vote(o, salt).verify(&committee).is_ok()),
            "qc" => verdict(|| ctx.qc(o, salt).verify(&committee).is_ok()),
            "tc" => verdict(|| ctx.tc(o, salt).map(|t| t.verify(&committee).is_ok()).unwrap_or(false)),
            "timeout" => verdict(|| ctx.timeout(o, salt).verify(&committee).is_ok()),
            "block" => verdict(|| ctx.block(o, salt).verify(&committee).is_ok()),
            other => panic!("unknown case kind {}", other),
        };
        if acc {
            accepted_n += 1;
        }
        let mut rec = json!({"t":"verify","c":c,"accepted":acc,"panicked":panicked,"injected":false,
                             "node_changed":false,"node_effects":0,"node_frames":0,"counted":false});
        let mut extra_recs: Vec<Value> = Vec::new();
        if chosen.contains(&ci) && !acc {
            // a fresh real node that is neither the author nor the first signer -- and, for votes and timeouts, also the node whose own
            // name the message claims (a message forged in the receiver's name must be rejected like any other)
            let author = o.get("author").and_then(|x| x.as_i64()).unwrap_or(0) as usize;
            let mut targets = vec![(author + 1) % n];
            if (kind == "vote" || kind == "timeout") && author < n {
                targets.push(author);
            }
            for (ti, me) in targets.into_iter().enumerate() {
            let mut rec_t = rec.clone();
            let mut rig = Rig::new(mk_cfg(Some(me)));
            let _ = rig.take_frames();
            let before = rig.events.iter().rev().find(|e| e["t"] == "core").map(|e| e["st"].clone());
            let n_events = rig.events.len();
            let msg = match kind {
                "vote" => ConsensusMessage::Vote(ctx.vote(o, salt)),
                "tc" => ConsensusMessage::TC(ctx.tc(o, salt).unwrap()),
                "timeout" => ConsensusMessage::Timeout(ctx.timeout(o, salt)),
                _ => ConsensusMessage::Propose(ctx.block(o, salt)),
            };
            rig.inject_msg(me, &msg);
            rig.pump(me);
            let frames = rig.take_frames();
            let steps: Vec<&Value> = rig.events[n_events..].iter().filter(|e| e["t"] == "core").collect();
            let after = steps.last().map(|e| e["st"].clone()).or_else(|| before.clone());
            let effects: usize = steps.iter().map(|e| e["out"].as_array().map(|x| x.len()).unwrap_or(0)).sum();
            let tasks = rig.events[n_events..].iter().filter(|e| e["t"] == "task").count();
            rec_t["injected"] = json!(true);
            rec_t["node_changed"] = json!(before != after);
            rec_t["node_effects"] = json!(effects + tasks);
            rec_t["node_frames"] = json!(frames.len());
            // complement probe: valid votes/timeouts of other members that stay below the quorum on their own but
            // would reach it together with the rejected one -- a certificate appears only if the rejected message was counted
            if kind == "vote" || kind == "timeout" {
                let total: u32 = stakes.iter().sum();
                let quorum = 2 * total / 3 + 1;
                let claimed = o["author"].as_i64().unwrap() as usize;
                if claimed < n && stakes[claimed] > 0 {
                    let mut acc_stake = 0u32;
                    let mut set = Vec::new();
                    for k in 0..n {
                        if k != claimed && stakes[k] > 0 && acc_stake + stakes[k] < quorum {
                            acc_stake += stakes[k];
                            set.push(k);
                        }
                    }
                    if acc_stake + stakes[claimed] >= quorum {
                        for k in set {
                            let m2 = if kind == "vote" {
                                ConsensusMessage::Vote(rig.make_vote(k, &blk_digest(o["blk"].as_i64().unwrap()), o["round"].as_u64().unwrap()))
                            } else {
                                ConsensusMessage::Timeout(rig.make_timeout(k, o["round"].as_u64().unwrap(), ctx.qc(&o["hq"], salt)))
                            };
                            rig.inject_msg(me, &m2);
                        }
                        rig.pump(me);
                        let formed = rig.events[n_events..].iter().filter(|e| e["t"] == "core").any(|e| {
                            e["out"].as_array().map(|x| x.iter().any(|o| o["k"] == "qc" || o["k"] == "tcmade")).unwrap_or(false)
                        });
                        rec_t["counted"] = json!(formed);
                    }
                }
            }
            if !rig.panics.is_empty() || !crate::util::take_panics().is_empty() {
                rec_t["panicked"] = json!(true);
            }
            injected_n += 1;
                if ti == 0 {
                    rec = rec_t;
                } else {
                    rec_t["target"] = json!("claimed_author");
                    extra_recs.push(rec_t);
                }
            }
        }
        w.write(&rec);
        for r in extra_recs {
            w.write(&r);
        }
    }
    // replay probe: the same VALID vote (timeout) delivered three times, then one more member's -- still below the quorum of distinct
    // signers, so no certificate may appear (a replayed message counts once)
    {
        let total: u32 = stakes.iter().sum();
        let quorum = 2 * total / 3 + 1;
        for what in ["vote", "timeout"] {
            // two distinct members whose joint stake is below the quorum, but would reach it if the first counted three times
            let mut pick = None;
            for a in 0..n {
                for b in 0..n {
                    if a != b && stakes[a] > 0 && stakes[b] > 0 && stakes[a] + stakes[b] < quorum && 3 * stakes[a] + stakes[b] >= quorum {
                        pick = Some((a, b));
                    }
                }
            }
            if let Some((a, b)) = pick {
                let me = (0..n).find(|x| *x != a && *x != b).unwrap_or(0);
                let mut rig = Rig::new(mk_cfg(Some(me)));
                let _ = rig.take_frames();
                let n_events = rig.events.len();
                let blk = blk_digest(5);
                for who in [a, a, a, b] {
                    let m = if what == "vote" {
                        ConsensusMessage::Vote(rig.make_vote(who, &blk, 1))
                    } else {
                        ConsensusMessage::Timeout(rig.make_timeout(who, 1, QC::genesis()))
                    };
                    rig.inject_msg(me, &m);
                }
                rig.pump(me);
                let formed = rig.events[n_events..].iter().filter(|e| e["t"] == "core").any(|e| {
                    e["out"].as_array().map(|x| x.iter().any(|o| o["k"] == "qc" || o["k"] == "tcmade")).unwrap_or(false)
                });
                w.write(&json!({"t":"replay","what":what,"first":a,"second":b,"node":me,"counted":formed}));
            }
        }
    }
    w.write(&json!({"t":"end"}));
    let lines = w.lines;
    w.finish();
    println!(
        "{}",
        json!({"cases":cases.len(),"accepted":accepted_n,"injected":injected_n,"trace_lines":lines,"wall_s":t0.elapsed().as_secs_f64()})
    );
    0
}
