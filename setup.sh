#!/bin/bash
# Build the verification framework from files on disk only (offline).
set -e
cd "$(dirname "$0")"
export CARGO_NET_OFFLINE=true
mkdir -p work evidence replays
(cd harness && cargo build --offline 2>&1 | tail -3)
if [ -z "$VERIF_SKIP_BENCH" ]; then
  (cd harness && cargo build --offline --features benchmark --target-dir target-bench 2>&1 | tail -3)
fi
cd spec
for f in *.tla; do
  case "$f" in *Proofs.tla) continue;; esac   # proof modules EXTEND TLAPS: parsed and checked by tlapm (check C17)
  tla-sany "$f" > ../work/sany.log 2>&1 || { echo "SANY failed on $f"; cat ../work/sany.log; exit 1; }
done
cd ..
echo "setup ok"
