----------------------------- MODULE Aggregator -----------------------------
(***************************************************************************)
(* consensus/src/aggregator.rs as a sequential object: add_vote,           *)
(* add_timeout, cleanup.  Votes are keyed by (round, digest of the vote),  *)
(* and the vote digest binds (block hash, round); timeouts by round.       *)
(* Makers are modelled exactly as the code keeps them: the set of authors  *)
(* already used, the list of (author, ...) entries and the running weight  *)
(* that is reset to 0 when a certificate is emitted.                       *)
(***************************************************************************)
EXTENDS Integers, Sequences, FiniteSets, TLC

CONSTANTS Authors,    \* committee members
          Outsiders,  \* keys that are not in the committee (stake 0)
          Stake,      \* [Authors -> Nat]
          Hashes, Rounds, HQRs,
          QuorumDelta \* 0 = the code; other values model a wrong threshold (attack models only)

RECURSIVE Sum(_)
Sum(S) == IF S = {} THEN 0 ELSE LET x == CHOOSE y \in S : TRUE IN Stake[x] + Sum(S \ {x})
Total  == Sum(Authors)
Quorum == (2 * Total) \div 3 + 1 + QuorumDelta
StakeOf(a) == IF a \in Authors THEN Stake[a] ELSE 0

VARIABLES vm,   \* [<<round, hash>> -> [used, entries, weight]]   (partial function)
          tm,   \* [round -> [used, entries, weight]]
          res,  \* result of the last call
          nops
vars == <<vm, tm, res, nops>>

NoMaker == [used |-> {}, entries |-> <<>>, weight |-> 0]
None    == [k |-> "none"]
Err(e)  == [k |-> "err", e |-> e]

Init == vm = <<>> /\ tm = <<>> /\ res = None /\ nops = 0

Get(f, key) == IF key \in DOMAIN f THEN f[key] ELSE NoMaker
Put(f, key, m) == [x \in DOMAIN f \cup {key} |-> IF x = key THEN m ELSE f[x]]

(* add_vote: aggregator.rs:28 and QCMaker::append *)
AddVote(a, h, r) ==
  LET key == <<r, h>>  m == Get(vm, key) IN
  /\ nops' = nops + 1
  /\ UNCHANGED tm
  /\ IF a \in m.used
     THEN /\ res' = Err("AuthorityReuse")
          /\ vm' = Put(vm, key, m)          \* entry() creates the maker even when the append fails
     ELSE LET w  == m.weight + StakeOf(a)
              m1 == [used |-> m.used \cup {a}, entries |-> Append(m.entries, a), weight |-> w]
          IN IF w >= Quorum
             THEN /\ vm' = Put(vm, key, [m1 EXCEPT !.weight = 0])
                  /\ res' = [k |-> "qc", hash |-> h, round |-> r, signers |-> m1.entries]
             ELSE /\ vm' = Put(vm, key, m1)
                  /\ res' = None

(* add_timeout: aggregator.rs:41 and TCMaker::append *)
AddTimeout(a, r, hqr) ==
  LET m == Get(tm, r) IN
  /\ nops' = nops + 1
  /\ UNCHANGED vm
  /\ IF a \in m.used
     THEN /\ res' = Err("AuthorityReuse")
          /\ tm' = Put(tm, r, m)
     ELSE LET w  == m.weight + StakeOf(a)
              m1 == [used |-> m.used \cup {a}, entries |-> Append(m.entries, <<a, hqr>>), weight |-> w]
          IN IF w >= Quorum
             THEN /\ tm' = Put(tm, r, [m1 EXCEPT !.weight = 0])
                  /\ res' = [k |-> "tc", round |-> r, entries |-> m1.entries]
             ELSE /\ tm' = Put(tm, r, m1)
                  /\ res' = None

(* cleanup: retain rounds >= r *)
Cleanup(r) ==
  /\ nops' = nops + 1
  /\ vm' = [key \in {x \in DOMAIN vm : x[1] >= r} |-> vm[key]]
  /\ tm' = [x \in {y \in DOMAIN tm : y >= r} |-> tm[x]]
  /\ res' = None

Next ==
  \/ \E a \in Authors \cup Outsiders, h \in Hashes, r \in Rounds : AddVote(a, h, r)
  \/ \E a \in Authors \cup Outsiders, r \in Rounds, q \in HQRs : AddTimeout(a, r, q)
  \/ \E r \in Rounds \cup {1 + CHOOSE x \in Rounds : \A y \in Rounds : y <= x} : Cleanup(r)

Spec == Init /\ [][Next]_vars

-----------------------------------------------------------------------------
SeqSet(q) == {q[i] : i \in 1..Len(q)}
Distinct(q) == Cardinality(SeqSet(q)) = Len(q)

\* C19, as properties of each step (so no history is needed):
\* a certificate comes out exactly in the step in which the distinct-author stake recorded for that very
\* (round, hash) / round first reaches the quorum; never earlier, never twice, never mixing keys.
QCStep ==
  \A h \in Hashes, r \in Rounds :
    LET key == <<r, h>>
        before == Sum(Get(vm, key).used \cap Authors)
        after  == Sum(Get(vm', key).used \cap Authors)
        emitted == res'.k = "qc" /\ res'.hash = h /\ res'.round = r
    IN /\ emitted <=> (before < Quorum /\ after >= Quorum /\ Get(vm', key).used # Get(vm, key).used)
       /\ emitted => /\ Distinct(res'.signers)
                     /\ SeqSet(res'.signers) = Get(vm', key).used
                     /\ Sum(SeqSet(res'.signers) \cap Authors) >= Quorum
TCStep ==
  \A r \in Rounds :
    LET before == Sum(Get(tm, r).used \cap Authors)
        after  == Sum(Get(tm', r).used \cap Authors)
        emitted == res'.k = "tc" /\ res'.round = r
    IN /\ emitted <=> (before < Quorum /\ after >= Quorum /\ Get(tm', r).used # Get(tm, r).used)
       /\ emitted => LET auth == {res'.entries[i][1] : i \in 1..Len(res'.entries)} IN
                     /\ Cardinality(auth) = Len(res'.entries)
                     /\ auth = Get(tm', r).used
                     /\ Sum(auth \cap Authors) >= Quorum
\* the exception: a cleanup that removed the maker lets the same votes be counted afresh (the core drops
\* stale rounds before aggregation, see HotStuff!HandleVote), so "before" is taken after the cleanup -- which
\* is what Get(vm, key) does.
CertificateStep == [][QCStep /\ TCStep]_vars

\* a rejected duplicate changes nothing that matters
DuplicateIsNoop == [][res'.k = "err" => (\A key \in DOMAIN vm : vm'[key] = vm[key]) /\ (\A r \in DOMAIN tm : tm'[r] = tm[r])]_vars

Bound == nops <= 8
=============================================================================
