------------------------------ MODULE BatchMaker ------------------------------
(***************************************************************************)
(* mempool/src/batch_maker.rs: transactions are appended to the current    *)
(* batch; the batch is sealed in the same step in which its byte size      *)
(* reaches batch_size (and the timer is re-armed), or when the timer fires *)
(* with a non-empty batch.  Time is the harness's virtual clock.           *)
(* Transactions are [id, size]; the content is opaque (any bytes, also     *)
(* none).  mempool/src/processor.rs stores every sealed batch under the    *)
(* hash of its serialized bytes and announces that digest.                 *)
(***************************************************************************)
EXTENDS Integers, Sequences, FiniteSets, TLC

CONSTANTS BatchSize, MaxDelay, Sizes, MaxTx, TimeSteps,
          Weak    \* {} = the code; "gt_threshold" (> instead of >=), "timer_noop", "drop_on_seal" are attack models

VARIABLES cur, curSize, sealed, since, nextId, accepted, fired
vars == <<cur, curSize, sealed, since, nextId, accepted, fired>>

Init == cur = <<>> /\ curSize = 0 /\ sealed = <<>> /\ since = 0 /\ nextId = 1 /\ accepted = <<>> /\ fired = FALSE

Seal(c) == Append(sealed, IF "drop_on_seal" \in Weak /\ Len(c) > 1 THEN Tail(c) ELSE c)

RecvTx(sz) ==
  /\ nextId <= MaxTx
  /\ LET c == Append(cur, [id |-> nextId, size |-> sz])  s == curSize + sz IN
       IF (IF "gt_threshold" \in Weak THEN s > BatchSize ELSE s >= BatchSize)
       THEN /\ sealed' = Seal(c) /\ cur' = <<>> /\ curSize' = 0 /\ since' = 0
       ELSE /\ cur' = c /\ curSize' = s /\ UNCHANGED <<sealed, since>>
  /\ accepted' = Append(accepted, nextId) /\ nextId' = nextId + 1 /\ fired' = FALSE

\* time passes (the virtual clock jumps by d); the timer, armed MaxDelay after the last re-arm, fires if it is due
Advance(d) ==
  /\ IF since + d >= MaxDelay
     THEN /\ since' = 0                                   \* re-armed when the firing is handled
          /\ IF cur # <<>> /\ "timer_noop" \notin Weak
             THEN sealed' = Seal(cur) /\ cur' = <<>> /\ curSize' = 0
             ELSE UNCHANGED <<sealed, cur, curSize>>
     ELSE since' = since + d /\ UNCHANGED <<sealed, cur, curSize>>
  /\ fired' = (since + d >= MaxDelay)
  /\ UNCHANGED <<nextId, accepted>>

Next == (\E sz \in Sizes : RecvTx(sz)) \/ (\E d \in TimeSteps : Advance(d))
Spec == Init /\ [][Next]_vars

-----------------------------------------------------------------------------
RECURSIVE Flat(_)
Flat(bs) == IF bs = <<>> THEN <<>> ELSE Head(bs) \o Flat(Tail(bs))
IdsOf(q) == [i \in 1..Len(q) |-> q[i].id]
\* C11: every accepted transaction is in exactly one place, in arrival order
ExactlyOnceInOrder == IdsOf(Flat(sealed) \o cur) = accepted
\* the open batch is always below the threshold (sealed as soon as it is reached), no empty batch is sealed
OpenBelowThreshold == curSize < BatchSize /\ (curSize = 0 <=> \A i \in 1..Len(cur) : cur[i].size = 0)
NoEmptyBatch == \A i \in 1..Len(sealed) : sealed[i] # <<>>
\* right after the timer has fired nothing stays open (fired = the last step was an Advance that reached the deadline)
TimerSeals == fired => cur = <<>>
=============================================================================
