------------------------------ MODULE Committee ------------------------------
(***************************************************************************)
(* consensus/src/config.rs, mempool/src/config.rs (quorum_threshold,       *)
(* stake) and consensus/src/leader.rs (round-robin over sorted keys).      *)
(***************************************************************************)
EXTENDS Integers, FiniteSets, Sequences, TLC

Quorum(n) == (2 * n) \div 3 + 1          \* quorum_threshold() for total stake n
Faults(n) == (n - 1) \div 3              \* f
QuorumNoOverflow(n) == n - (n - 1) \div 3   \* same value, does not need 2*n (used for n near 2^31)

\* The arithmetic part of C17 for every total stake is proved in CommitteeProofs.tla (tlapm).

-----------------------------------------------------------------------------
(* Set-level statement, checked by TLC over every stake distribution of a small committee *)
CONSTANTS MaxN, MaxStake, MaxTotal

RECURSIVE SumSeq(_)
SumSeq(s) == IF s = <<>> THEN 0 ELSE Head(s) + SumSeq(Tail(s))
StakeVectors == UNION {[1..n -> 0..MaxStake] : n \in 1..MaxN}
RECURSIVE SumOver(_, _)
SumOver(st, S) == IF S = {} THEN 0 ELSE LET x == CHOOSE y \in S : TRUE IN st[x] + SumOver(st, S \ {x})

\* any two quorums share more than f stake; the stake outside any fault set of weight <= f is a quorum
QuorumIntersection(st) ==
  LET M == DOMAIN st  n == SumOver(st, M)  q == Quorum(n)  f == Faults(n) IN
  n >= 1 =>
    /\ \A A, B \in SUBSET M : (SumOver(st, A) >= q /\ SumOver(st, B) >= q) => SumOver(st, A \cap B) > f
    /\ \A Bad \in SUBSET M : SumOver(st, Bad) <= f => SumOver(st, M \ Bad) >= q
    /\ 3 * q > 2 * n /\ q <= n - f /\ q = QuorumNoOverflow(n)

AllIntersect == \A st \in StakeVectors : (SumOver(st, DOMAIN st) <= MaxTotal) => QuorumIntersection(st)

\* leader.rs: keys sorted, index round mod size.  Authorities are identified with their rank in sorted order.
Leader(n, r) == r % n
RotationCovers == \A n \in 1..MaxN : \A r \in 0..(3 * n) : {Leader(n, r + k) : k \in 0..(n - 1)} = 0..(n - 1)
LeaderUnique   == \A n \in 1..MaxN : \A r \in 0..(3 * n) : Leader(n, r) \in 0..(n - 1)

ASSUME AllIntersect
ASSUME RotationCovers /\ LeaderUnique
=============================================================================
