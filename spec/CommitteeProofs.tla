--------------------------- MODULE CommitteeProofs ---------------------------
(* tlapm-checked arithmetic behind C17 (and the rotation part of C09), for every total stake / round. *)
EXTENDS Integers, TLAPS

Quorum(n) == (2 * n) \div 3 + 1
Faults(n) == (n - 1) \div 3
QuorumNoOverflow(n) == n - (n - 1) \div 3

\* C17, arithmetic part, for every total stake: proved by tlapm (Z3 back end)
THEOREM QuorumArith == \A n \in Nat : n >= 1 =>
   /\ 3 * Quorum(n) > 2 * n
   /\ Quorum(n) <= n - Faults(n)
   /\ 2 * Quorum(n) - n > Faults(n)
   /\ Quorum(n) = n - Faults(n)
  BY Z3 DEF Quorum, Faults

THEOREM SameValue == \A n \in Nat : n >= 1 => Quorum(n) = QuorumNoOverflow(n)
  BY Z3 DEF Quorum, QuorumNoOverflow

\* (The rotation statement of C09 involves an existential over a modulus; Z3 does not discharge it, so it is
\* checked by TLC for n <= MaxN in Committee.tla -- RotationCovers -- and not claimed as proved.)
=============================================================================
