------------------------------- MODULE Crypto -------------------------------
(***************************************************************************)
(* crypto/src/lib.rs as an ideal functionality, and the case matrix that   *)
(* the harness instantiates with real ed25519 keys.  A signature is ideal: *)
(* Sig(k, d) is the only value that verifies for key k and digest d.       *)
(* A batch member is [key, dig, sig] described by what it was made from.   *)
(***************************************************************************)
EXTENDS Integers, Sequences, FiniteSets, TLC

CONSTANTS MaxBatch

Corruptions == {"none", "digest", "key", "sigbit", "keybit"}   \* keybit: one bit of the key flipped (often no longer a curve point)
\* an abstract member: made for (key k, digest d); `c` says how it was corrupted afterwards
Member(i, c) == [i |-> i, c |-> c]
MemberOK(m) == m.c = "none"
\* Signature::verify on one member; Signature::verify_batch on the list (all members signed the same digest)
Verify(m) == MemberOK(m)
VerifyBatch(ms) == \A j \in 1..Len(ms) : Verify(ms[j])

\* the matrix: batch size 0..MaxBatch, at most one corrupted position, every corruption kind
Batches == UNION { {[j \in 1..n |-> Member(j, IF j = p THEN c ELSE "none")] : p \in 0..n, c \in Corruptions \ {"none"}} : n \in 0..MaxBatch }
Cases == {[members |-> b, batch_ok |-> VerifyBatch(b), each_ok |-> [j \in 1..Len(b) |-> Verify(b[j])]] : b \in Batches}

\* batch verification accepts exactly when every member verifies individually
BatchIffEach == \A c \in Cases : c.batch_ok <=> \A j \in 1..Len(c.members) : c.each_ok[j]
EmptyBatchAccepted == \E c \in Cases : Len(c.members) = 0 /\ c.batch_ok
ASSUME BatchIffEach /\ EmptyBatchAccepted
=============================================================================
