------------------------------ MODULE Digests ------------------------------
(***************************************************************************)
(* The pre-images that consensus/src/messages.rs hashes (SHA-512/256) to   *)
(* obtain the digests that get signed:                                     *)
(*    block        author(32B) || round(8B LE) || payload digests(32B each) || parent hash(32B)   *)
(*    vote and QC  block hash(32B) || round(8B)                            *)
(*    timeout/TC   round(8B) || high-QC round(8B)                          *)
(* Widths are scaled to units of 8 bytes (digest and key = 4 units,        *)
(* round = 1 unit) over a one-bit alphabet per unit, which keeps every     *)
(* length relation of the real layout.  TLC checks that each layout is     *)
(* injective (a decoder exists) and that the three kinds of pre-image can  *)
(* never coincide -- so, given a collision-resistant hash, digests bind    *)
(* exactly the fields C20 names and a signature cannot move between kinds. *)
(***************************************************************************)
EXTENDS Integers, Sequences, FiniteSets, TLC

CONSTANTS MaxPayload    \* payload length explored

Unit   == {0, 1}
DW     == 4             \* digest / key width in units
Dig    == [1..DW -> Unit]
Rnd    == [1..1 -> Unit]

RECURSIVE Flatten(_)
Flatten(ss) == IF ss = <<>> THEN <<>> ELSE Head(ss) \o Flatten(Tail(ss))

BlockPre(author, round, payload, parent) == author \o round \o Flatten(payload) \o parent
VotePre(hash, round)  == hash \o round
TimeoutPre(round, hqr) == round \o hqr

Payloads == UNION {[1..k -> Dig] : k \in 0..MaxPayload}

\* decoders: fixed field widths make the parse unique
Slice(s, a, b) == [i \in 1..(b - a + 1) |-> s[a + i - 1]]
DecodeBlock(s) ==
  LET k == (Len(s) - (2 * DW + 1)) \div DW IN
  [author |-> Slice(s, 1, DW), round |-> Slice(s, DW + 1, DW + 1),
   payload |-> [i \in 1..k |-> Slice(s, DW + 2 + (i - 1) * DW, DW + 1 + i * DW)],
   parent |-> Slice(s, Len(s) - DW + 1, Len(s))]

BlockInjective ==
  \A a \in Dig, r \in Rnd, p \in Payloads, q \in Dig :
     DecodeBlock(BlockPre(a, r, p, q)) = [author |-> a, round |-> r, payload |-> p, parent |-> q]
VoteInjective    == \A h \in Dig, r \in Rnd : LET s == VotePre(h, r) IN Slice(s, 1, DW) = h /\ Slice(s, DW + 1, DW + 1) = r
TimeoutInjective == \A r \in Rnd, q \in Rnd : LET s == TimeoutPre(r, q) IN Slice(s, 1, 1) = r /\ Slice(s, 2, 2) = q

BlockLens   == {2 * DW + 1 + k * DW : k \in 0..MaxPayload}
KindsDisjoint == (DW + 1) \notin BlockLens /\ 2 \notin BlockLens /\ DW + 1 # 2
\* the real widths: 72 + 32k vs 40 vs 16 bytes, for every payload length
RealKindsDisjoint == \A k \in 0..1000 : 72 + 32 * k # 40 /\ 72 + 32 * k # 16

\* the universe the harness instantiates with real messages (hsverif digests, record "universe"): a few digest/key values -- among them the
\* all-zero digest, which is the hash inside QC::genesis(), and values that double as author keys -- two authors, two rounds, payloads of
\* length <= 2, every value as parent.  All pre-images of the universe are pairwise distinct, across kinds too.
UVals == {[i \in 1..DW |-> 0], [i \in 1..DW |-> IF i = DW THEN 1 ELSE 0], [i \in 1..DW |-> IF i = DW - 1 THEN 1 ELSE 0],
          [i \in 1..DW |-> IF i >= DW - 1 THEN 1 ELSE 0], [i \in 1..DW |-> IF i = 1 THEN 1 ELSE 0]}
UAuthors == {[i \in 1..DW |-> IF i = DW THEN 1 ELSE 0], [i \in 1..DW |-> IF i = DW - 1 THEN 1 ELSE 0]}
UPayloads == UNION {[1..k -> UVals] : k \in 0..2}
UBlocks == {BlockPre(a, r, p, q) : a \in UAuthors, r \in Rnd, p \in UPayloads, q \in UVals}
UVotes == {VotePre(h, r) : h \in UVals, r \in Rnd}
UTimeouts == {TimeoutPre(r, q) : r \in Rnd, q \in Rnd}
UniverseDistinct ==
  /\ Cardinality(UBlocks) = Cardinality(UAuthors) * Cardinality(Rnd) * Cardinality(UPayloads) * Cardinality(UVals)
  /\ Cardinality(UVotes) = Cardinality(UVals) * Cardinality(Rnd)
  /\ Cardinality(UTimeouts) = Cardinality(Rnd) * Cardinality(Rnd)
  /\ UBlocks \cap UVotes = {} /\ UBlocks \cap UTimeouts = {} /\ UVotes \cap UTimeouts = {}
USize == Cardinality(UBlocks) + Cardinality(UVotes) + Cardinality(UTimeouts)

ASSUME BlockInjective /\ VoteInjective /\ TimeoutInjective
ASSUME UniverseDistinct /\ USize = 634
ASSUME KindsDisjoint /\ RealKindsDisjoint
=============================================================================
