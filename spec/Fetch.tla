------------------------------- MODULE Fetch -------------------------------
(***************************************************************************)
(* The "fetch what is missing" subsystem of one node, as wired by          *)
(* consensus.rs / mempool.rs / node.rs on one shared store:                *)
(*                                                                         *)
(*  consensus/src/synchronizer.rs  Synchronizer (get_parent_block, the     *)
(*      task with `pending`, `requests`, the 5 s retry timer)              *)
(*  consensus/src/helper.rs        Helper (answers SyncRequest)            *)
(*  consensus/src/mempool.rs       MempoolDriver::verify / cleanup and the *)
(*      PayloadWaiter task                                                 *)
(*  mempool/src/synchronizer.rs    Synchronizer (Synchronize / Cleanup,    *)
(*      `pending`, the 1 s retry timer, lucky broadcast)                   *)
(*  mempool/src/helper.rs          Helper (answers BatchRequest)           *)
(*                                                                         *)
(* One action per entry point; every action leaves in `out` the set of     *)
(* effects it caused (frames written, blocks looped back) and in `res` the *)
(* value returned to the caller, so that the same actions are the oracle   *)
(* of trace validation (TraceFetch) and the generator of schedules         *)
(* (MC_FetchSim).  Time is kept as count-downs and capped ages, so the     *)
(* state space is finite without a clock bound.                            *)
(***************************************************************************)
EXTENDS Integers, FiniteSets, TLC

CONSTANTS NB,          \* blocks are 1..NB; 0 is genesis (a block whose QC is QC::genesis() has parent 0)
          Par,         \* [1..NB -> 0..NB]
          Auth,        \* [1..NB -> Peers]   author of the block = first sync target
          Pay,         \* [1..NB -> SUBSET Batches]
          Rnd,         \* [1..NB -> Nat]
          Batches,     \* batch keys (integers > NB)
          Peers,       \* the other authorities
          BlockTimer,  \* TIMER_ACCURACY   (consensus synchronizer), ms
          BatchTimer,  \* TIMER_RESOLUTION (mempool synchronizer), ms
          BRetryDelay, \* consensus sync_retry_delay
          MRetryDelay, \* mempool sync_retry_delay
          RetryNodes,  \* mempool sync_retry_nodes
          GcDepth,
          Steps,       \* clock advances offered to the model checker
          Weak         \* attack models (non-vacuity); {} is the code

Blocks == 1..NB
Keys   == Blocks \cup Batches
Min(a, b) == IF a < b THEN a ELSE b

VARIABLES stored,               \* keys in the store
          bpend, breq, bage,    \* consensus synchronizer: `pending`, `requests` (keys) and the age of each request
          bleft, bsince,        \* its timer: ms until it fires; ms since it last fired (history, for TimerNotPostponed)
          mpend, mrnd, mage,    \* mempool synchronizer: `pending` keys, round recorded with each, age of each request
          mround, mleft, msince,
          ppend,                \* payload waiter: set of [b, missing]
          out, res              \* effects and result of the last action (observation)
vars == <<stored, bpend, breq, bage, bleft, bsince, mpend, mrnd, mage, mround, mleft, msince, ppend, out, res>>
bsync == <<bpend, breq, bage>>
btime == <<bleft, bsince>>
msync == <<mpend, mrnd, mage, mround>>
mtime == <<mleft, msince>>

Init ==
  /\ stored = {} /\ bpend = {} /\ breq = {} /\ bage = [d \in Blocks |-> 0]
  /\ bleft = BlockTimer /\ bsince = 0
  /\ mpend = {} /\ mrnd = [d \in Batches |-> 0] /\ mage = [d \in Batches |-> 0]
  /\ mround = 0 /\ mleft = BatchTimer /\ msince = 0
  /\ ppend = {} /\ out = {} /\ res = "init"

-----------------------------------------------------------------------------
(* Synchronizer::get_parent_block(b) followed by the synchronizer task taking the block from its channel *)
Ask(b) ==
  /\ UNCHANGED <<stored, msync, mtime, ppend>>
  /\ IF Par[b] = 0 \/ Par[b] \in stored
     THEN res' = "have" /\ out' = {} /\ UNCHANGED <<bsync, btime>>
     ELSE /\ res' = "missing"
          /\ IF b \in bpend
             THEN out' = {} /\ UNCHANGED <<bsync, btime>>
             ELSE /\ bpend' = bpend \cup {b}
                  /\ IF Par[b] \in breq
                     THEN out' = {} /\ UNCHANGED <<breq, bage, btime>>
                     ELSE /\ breq' = breq \cup {Par[b]}
                          /\ bage' = [bage EXCEPT ![Par[b]] = 0]
                          /\ out' = {[k |-> "breq", d |-> Par[b], to |-> Auth[b]]}
                          /\ IF "rearm_on_request" \in Weak
                             THEN bleft' = BlockTimer /\ UNCHANGED bsince
                             ELSE UNCHANGED btime

(* MempoolDriver::verify(b): Synchronize to the mempool synchronizer, Wait to the payload waiter *)
Verify(b) ==
  LET missing == Pay[b] \ stored
      new     == missing \ mpend IN
  /\ UNCHANGED <<stored, bsync, btime, mtime, mround>>
  /\ IF missing = {}
     THEN res' = "ok" /\ out' = {} /\ UNCHANGED <<mpend, mrnd, mage, ppend>>
     ELSE /\ res' = "wait"
          /\ mpend' = mpend \cup new
          /\ mrnd' = [d \in Batches |-> IF d \in new THEN mround ELSE mrnd[d]]
          /\ mage' = [d \in Batches |-> IF d \in new THEN 0 ELSE mage[d]]
          /\ out' = {[k |-> "mreq", ds |-> new, to |-> Auth[b]]}      \* sent even when `new` is empty
          /\ ppend' = IF \E w \in ppend : w.b = b THEN ppend
                      ELSE ppend \cup {[b |-> b, missing |-> IF "wait_any" \in Weak THEN {CHOOSE d \in missing : TRUE} ELSE missing]}

(* MempoolDriver::cleanup(r) *)
Cleanup(r) ==
  /\ UNCHANGED <<stored, bsync, btime, mtime, mrnd, mage>>
  /\ mround' = r
  /\ mpend' = IF r < GcDepth THEN mpend ELSE {d \in mpend : mrnd[d] > r - GcDepth}
  /\ ppend' = {w \in ppend : Rnd[w.b] > r}
  /\ out' = {} /\ res' = "done"

(* a key is written to the store (by the core for a block, by the processor for a batch) *)
Write(key) ==
  /\ UNCHANGED <<btime, mtime, mrnd, mage, mround, bage>>
  /\ stored' = stored \cup {key}
  /\ LET rb == {b \in bpend : Par[b] = key}
         rp == IF "resume_blind" \in Weak THEN {w \in ppend : key \in w.missing}
               ELSE {w \in ppend : w.missing \subseteq stored'} IN
     /\ bpend' = bpend \ rb
     /\ breq' = breq \ {key}
     /\ mpend' = mpend \ {key}
     /\ ppend' = ppend \ rp
     /\ out' = {[k |-> "resume", b |-> b] : b \in rb} \cup {[k |-> "presume", b |-> w.b] : w \in rp}
  /\ res' = "done"

(* time passes.  Time never jumps over a deadline (dt <= time left on either timer): a timer whose deadline is reached fires in that
   step and is re-armed for a full period.  (Under real time the 1 s and 5 s timers fire every period; a model in which one step may
   skip several deadlines would hide changes that only matter when the timer ticks regularly.) *)
NextDeadline == Min(bleft, mleft)
Advance(dt) ==
  LET bfire  == dt = bleft
      mfire  == dt = mleft
      bage2  == [d \in Blocks  |-> Min(bage[d] + dt, BRetryDelay + 1)]
      mage2  == [d \in Batches |-> Min(mage[d] + dt, MRetryDelay + 1)]
      bretry == IF "no_retry" \in Weak THEN {} ELSE {d \in breq : bage2[d] > BRetryDelay}
      mretry == IF "no_retry" \in Weak THEN {} ELSE {d \in mpend : mage2[d] > MRetryDelay} IN
  /\ dt > 0 /\ dt <= NextDeadline
  /\ UNCHANGED <<stored, bpend, breq, mpend, mrnd, mround, ppend>>
  /\ bage' = bage2 /\ mage' = mage2
  /\ bleft' = IF bfire THEN BlockTimer ELSE bleft - dt
  /\ bsince' = IF bfire THEN 0 ELSE Min(bsince + dt, BlockTimer + 1)
  /\ mleft' = IF mfire THEN BatchTimer ELSE mleft - dt
  /\ msince' = IF mfire THEN 0 ELSE Min(msince + dt, BatchTimer + 1)
  /\ out' = (IF bfire THEN {[k |-> "breq", d |-> d, to |-> p] : d \in bretry, p \in Peers} ELSE {})
            \cup (IF mfire /\ mretry # {} THEN {[k |-> "mlucky", ds |-> mretry, n |-> Min(RetryNodes, Cardinality(Peers))]} ELSE {})
  /\ res' = "done"

(* the two helpers: a SyncRequest / BatchRequest from peer p *)
BlockRequest(d, p) ==
  /\ UNCHANGED <<stored, bsync, btime, msync, mtime, ppend>>
  /\ out' = IF d \in stored /\ d \in Blocks THEN {[k |-> "brep", d |-> d, to |-> p]} ELSE {}
  /\ res' = "done"
BatchRequest(ds, p) ==
  /\ UNCHANGED <<stored, bsync, btime, msync, mtime, ppend>>
  /\ out' = {[k |-> "mrep", d |-> d, to |-> p] : d \in ds \cap stored}
  /\ res' = "done"

NextCore ==      \* without the (stateless) helpers
  \/ \E b \in Blocks : Ask(b) \/ Verify(b)
  \/ \E r \in {Rnd[b] : b \in Blocks} : Cleanup(r)
  \/ \E key \in Keys : Write(key)
  \/ \E dt \in Steps \cup {NextDeadline} : Advance(dt)
Next ==
  \/ NextCore
  \/ \E d \in Keys, p \in Peers : BlockRequest(d, p)
  \/ \E ds \in SUBSET Batches, p \in Peers : ds # {} /\ BatchRequest(ds, p)
Spec == Init /\ [][Next]_vars
CoreSpec == Init /\ [][NextCore]_vars

-----------------------------------------------------------------------------
(* C07: every parked block has an outstanding request for its parent (which is therefore retried), and nothing else is requested *)
ParkedHasRequest == \A b \in bpend : Par[b] \in breq /\ Par[b] \notin stored
RequestHasParked == \A d \in breq : \E b \in bpend : Par[b] = d
(* C07 / C13: the retry timers are periodic -- nothing the node does postpones them *)
TimerNotPostponed == bleft + bsince <= BlockTimer /\ mleft + msince <= BatchTimer
(* C08: a block waits for payload exactly as long as one of its missing batches is not stored *)
WaitersNeedData == \A w \in ppend : ~(w.missing \subseteq stored)
MPendMissing == mpend \cap stored = {}
(* C07 / C08: what is looped back has what it waited for *)
ResumeSound == [][\A o \in out' : /\ (o.k = "resume" => Par[o.b] \in stored')
                                  /\ (o.k = "presume" => Pay[o.b] \subseteq stored')]_vars
(* helpers answer with what is stored under the requested key, and only that *)
RepliesStored == [][\A o \in out' : o.k \in {"brep", "mrep"} => o.d \in stored]_vars
(* an observation, not a listed property: a block can wait for a batch that the mempool synchronizer has garbage-collected *)
WaitingPayloadIsRequested == \A w \in ppend : (w.missing \ stored) \subseteq mpend
=============================================================================
