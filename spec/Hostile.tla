------------------------------- MODULE Hostile -------------------------------
(* C15 in model terms: hostile input is a stuttering step of the node (Node.tla/HotStuff.tla: a rejected or undecodable
   message changes nothing), so after any number of hostile steps the node's services are still enabled.  What TLA+
   contributes here is the class matrix (port x shape) that the harness must instantiate, and the statement checked on
   the recorded runs: no burst produces a panic, every probe after every burst succeeds. *)
EXTENDS Integers, Sequences, FiniteSets, TLC
Ports  == {"Consensus", "Mempool", "Tx"}
Shapes == {"random_bytes", "truncated_valid", "mutated_valid", "other_ports_valid", "sync_request_for_batch_digest",
           "batch_request_for_block_digest", "sync_request_unknown", "short_or_long_key", "byzantine_member_absurd_rounds",
           "huge_length_prefix", "empty_and_tiny_transactions",
           \* a proposal of the honest leader re-sent with the fields its signature does not cover replaced (TC, the QC's round and votes)
           "relayed_proposal_unsigned_fields_doctored"}
\* which shapes make sense on which port
Applies(s, p) ==
  CASE s \in {"random_bytes", "mutated_valid"} -> TRUE
    [] s \in {"truncated_valid", "other_ports_valid", "sync_request_unknown", "short_or_long_key", "huge_length_prefix"} -> p # "Tx"
    [] s \in {"sync_request_for_batch_digest", "byzantine_member_absurd_rounds", "relayed_proposal_unsigned_fields_doctored"} -> p = "Consensus"
    [] s = "batch_request_for_block_digest" -> p = "Mempool"
    [] s = "empty_and_tiny_transactions" -> p = "Tx"
Matrix == {<<s, p>> \in Shapes \X Ports : Applies(s, p)}
Probes == {"commits_continue", "block_sync_answered", "batch_sync_answered", "transaction_batched"}
ASSUME Cardinality(Matrix) = 21
=============================================================================
