------------------------------ MODULE HotStuff ------------------------------
(***************************************************************************)
(* 2-chain HotStuff as implemented by asonnino/hotstuff, consensus crate.  *)
(*                                                                         *)
(* One operator per handler of consensus/src/core.rs, written as a         *)
(* function from the node-local state record `s` to the new record; the    *)
(* effects a handler has on the outside (messages, commit channel, store,  *)
(* proposer requests) are appended to `s.out` in the order the code        *)
(* produces them.  The same operators are used by                          *)
(*   - the closed-system model (MC_Global): honest nodes + a Byzantine    *)
(*     adversary that is existentially quantified at delivery time,        *)
(*   - the open-system model (MC_Local): one honest node against an       *)
(*     environment holding every other key, and                            *)
(*   - trace validation (TraceHS): every handler invocation recorded from  *)
(*     the real code must equal the operator applied to the recorded       *)
(*     pre-state.                                                          *)
(*                                                                         *)
(* Abstractions: a block is the tuple <<round, author, variant, parent>>   *)
(* (what Block::digest binds: author, round, payload, qc.hash); a QC is    *)
(* identified with the block it certifies; a TC is [round, hqr] with hqr   *)
(* the maximum high-QC round it reports; signatures are ideal.             *)
(***************************************************************************)
EXTENDS Integers, Sequences, FiniteSets, TLC

CONSTANTS N,          \* authorities are 0..N-1, in sorted public-key order
          Stake,      \* [0..N-1 -> Nat]
          Honest,     \* honest authorities that are modelled
          MaxRound,   \* rounds explored
          Variants,   \* payload variants of blocks not authored by modelled nodes
          Weaken,     \* set of rule names that are switched off (attack models); {} = the code
          CommitAlgo  \* "fixed" = the repaired ancestor walk, "asfound" = the walk of the pinned commit

Node      == 0..(N-1)
Byz       == Node \ Honest
Leader(r) == r % N                     \* leader.rs: sorted keys, round mod size

RECURSIVE SumStake(_)
SumStake(S) == IF S = {} THEN 0 ELSE LET x == CHOOSE y \in S : TRUE IN Stake[x] + SumStake(S \ {x})
Total     == SumStake(Node)
Quorum    == IF "quorum" \in Weaken THEN (2 * Total) \div 3 ELSE (2 * Total) \div 3 + 1   \* config.rs

Genesis   == <<0, -1, 0, <<>>>>
Rnd(b)    == b[1]
Auth(b)   == b[2]
Var(b)    == b[3]
Par(b)    == b[4]
NoTC      == [round |-> -1, hqr |-> -1]
Max(a, b) == IF a >= b THEN a ELSE b
SetMax(S) == CHOOSE x \in S : \A y \in S : y <= x

RECURSIVE BlocksUpTo(_)
BlocksUpTo(r) == IF r = 0 THEN {Genesis}
                 ELSE LET prev == BlocksUpTo(r - 1) IN
                      prev \cup {<<r, Leader(r), v, par>> :
                                   v \in (IF Leader(r) \in Honest THEN {0} ELSE Variants), par \in prev}
Universe == BlocksUpTo(MaxRound)

RECURSIVE Ancestor(_, _)
Ancestor(a, b) == a = b \/ (b # Genesis /\ Rnd(b) > Rnd(a) /\ Ancestor(a, Par(b)))

-----------------------------------------------------------------------------
(* Node-local state.                                                       *)
InitNode(n) ==
  [ me |-> n, r |-> 1, lv |-> 0, lc |-> 0, hq |-> Genesis,
    stored  |-> {},        \* blocks written to the store by this node's core
    parked  |-> {},        \* proposals suspended on a missing parent (synchronizer)
    pwait   |-> {},        \* proposals suspended on missing payload (payload waiter)
    vagg    |-> {},        \* <<block, voter>>      votes_aggregators
    tagg    |-> {},        \* <<round, author, hqr>> timeouts_aggregators
    makeQ   |-> IF Leader(1) = n THEN <<[round |-> 1, qc |-> Genesis, tc |-> NoTC]>> ELSE <<>>,
    loopQ   |-> {},        \* proposals waiting on rx_loopback
    out     |-> <<>> ]     \* effects of the current handler, in program order

Emit(s, e)    == [s EXCEPT !.out = Append(@, e)]

(* advance_round: core.rs:269 *)
AdvanceRound(s, r) ==
  IF r < s.r /\ "round_guard" \notin Weaken THEN s
  ELSE Emit([s EXCEPT !.r = r + 1,
                      !.vagg = {x \in @ : Rnd(x[1]) >= r + 1},
                      !.tagg = {x \in @ : x[1] >= r + 1}],
            [k |-> "round", round |-> r + 1])

(* process_qc: advance_round then update_high_qc *)
\* attack model "stale_qc_ignored": a QC of a round the node has already left is not merged into high_qc
ProcessQC(s, q) ==
  IF "stale_qc_ignored" \in Weaken /\ Rnd(q) < s.r THEN s ELSE
  LET s1 == AdvanceRound(s, Rnd(q)) IN
  IF Rnd(q) > Rnd(s1.hq) THEN [s1 EXCEPT !.hq = q] ELSE s1

VoterStake(agg, b)   == SumStake({x[2] : x \in {y \in agg : y[1] = b}})
TimeoutStake(agg, r) == SumStake({x[2] : x \in {y \in agg : y[1] = r}})

(* generate_proposal: queue a Make request with the round and high QC of *now* *)
MakeReq(s, tc) == Emit([s EXCEPT !.makeQ = Append(@, [round |-> s.r, qc |-> s.hq, tc |-> tc])],
                       [k |-> "make", round |-> s.r, qc |-> s.hq, tc |-> tc])

(* handle_vote: core.rs:203.  v = [blk, author] *)
HandleVote(s, v) ==
  IF Rnd(v.blk) < s.r THEN s
  ELSE IF <<v.blk, v.author>> \in s.vagg THEN Emit(s, [k |-> "err", e |-> "AuthorityReuse"])
  ELSE LET before == VoterStake(s.vagg, v.blk)
           s1 == [s EXCEPT !.vagg = @ \cup {<<v.blk, v.author>>}]
           after == before + Stake[v.author]
       IN IF before < Quorum /\ after >= Quorum
          THEN LET s2 == ProcessQC(Emit(s1, [k |-> "qc", blk |-> v.blk]), v.blk)
               IN IF Leader(s2.r) = s.me THEN MakeReq(s2, NoTC) ELSE s2
          ELSE s1

(* commit: core.rs:118.  The ancestor walk. *)
RECURSIVE Ancestors(_, _)
\* the ancestor walk of commit() as coded (after fix 0de0dce): from the block, while lc + 1 < parent.round take the parent, stop at a block of
\* round <= lc; delivered oldest first.  (Along chains whose rounds strictly increase -- all chains a correct node can be shown when at most f
\* authorities are faulty -- this is "every ancestor of round > lc"; an unconstrained environment can build chains with equal rounds.)
Ancestors(p, lc) == IF lc + 1 < Rnd(p) /\ p # Genesis
                    THEN LET a == Par(p) IN IF a = Genesis \/ Rnd(a) <= lc THEN <<>> ELSE Append(Ancestors(a, lc), a)
                    ELSE <<>>
ChainDown(b, lc) == IF b = Genesis \/ Rnd(b) <= lc THEN <<>> ELSE Append(Ancestors(b, lc), b)

RECURSIVE WalkAsFound(_, _, _)
\* while lc + 1 < parent.round: push_front(parent-of-parent); finally push_front(block); pop_back.
WalkAsFound(parent, lc, acc) ==
  IF lc + 1 < Rnd(parent) THEN WalkAsFound(Par(parent), lc, <<Par(parent)>> \o acc) ELSE acc
Reverse(q) == [i \in 1..Len(q) |-> q[Len(q) + 1 - i]]
CommitSeq(b0, lc) ==
  IF CommitAlgo = "fixed" THEN ChainDown(b0, lc)
  ELSE Reverse(<<b0>> \o WalkAsFound(b0, lc, <<>>))

RECURSIVE EmitAll(_, _)
EmitAll(s, q) == IF q = <<>> THEN s ELSE EmitAll(Emit(s, [k |-> "commit", blk |-> Head(q)]), Tail(q))

Commit(s, b0) ==
  IF s.lc >= Rnd(b0) THEN s
  ELSE EmitAll([s EXCEPT !.lc = Rnd(b0)], CommitSeq(b0, s.lc))

(* make_vote: core.rs:99 *)
SafeToVote(s, p) ==
  LET b == p.blk IN
  /\ ("vote_once" \in Weaken \/ Rnd(b) > s.lv)
  /\ \/ Rnd(Par(b)) + 1 = Rnd(b)
     \/ /\ p.tc # NoTC
        /\ ("rule2_tc_round" \in Weaken \/ p.tc.round + 1 = Rnd(b))
        /\ ("rule2_tc_hqr" \in Weaken \/ Rnd(Par(b)) >= p.tc.hqr)
     \/ "rule2" \in Weaken

(* process_block: core.rs:310 *)
ProcessBlock(s, p) ==
  LET b == p.blk  b1 == Par(b) IN
  IF b1 # Genesis /\ b1 \notin s.stored
  THEN \* the synchronizer keeps one waiter per block digest: a second proposal of the same block (other TC) is not kept
       Emit([s EXCEPT !.parked = IF \E q \in @ : q.blk = b THEN @ ELSE @ \cup {p}], [k |-> "park", blk |-> b])
  ELSE
    LET b0 == IF b1 = Genesis THEN Genesis ELSE Par(b1)
        s1 == Emit([s EXCEPT !.stored = @ \cup {b}], [k |-> "store", blk |-> b])
        s2 == IF Rnd(b0) + 1 = Rnd(b1) \/ ("commit_consecutive" \in Weaken /\ b1 # Genesis)
              THEN Commit(s1, b0) ELSE s1
    IN IF Rnd(b) # s2.r THEN s2
       ELSE IF ~SafeToVote(s2, p) THEN s2
       ELSE LET s3 == Emit([s2 EXCEPT !.lv = IF "vote_once" \in Weaken THEN @ ELSE Max(@, Rnd(b))],
                           [k |-> "vote", blk |-> b, to |-> Leader(s2.r + 1)])
            IN IF Leader(s2.r + 1) = s.me THEN HandleVote(s3, [blk |-> b, author |-> s.me]) ELSE s3

(* handle_proposal: core.rs:365.  `avail` = the payload of the block is in the local store. *)
HandleProposal(s, p, avail) ==
  LET b == p.blk IN
  IF Auth(b) # Leader(Rnd(b)) /\ "leader_check" \notin Weaken
  THEN Emit(s, [k |-> "err", e |-> "WrongLeader"])
  ELSE LET s1 == ProcessQC(s, Par(b))
           s2 == IF p.tc # NoTC THEN AdvanceRound(s1, p.tc.round) ELSE s1
           \* attack model "qc_after_payload": the certificates of a proposal whose payload is missing are not processed
           \* (neither now nor when the block is looped back, since the loop-back path goes straight to process_block)
           sw == IF "qc_after_payload" \in Weaken THEN s ELSE s2
       IN IF ~avail THEN \* the payload waiter keeps one entry per block digest (consensus/src/mempool.rs: pending.contains_key)
                         Emit([sw EXCEPT !.pwait = IF \E q \in @ : q.blk = b THEN @ ELSE @ \cup {p}], [k |-> "paywait", blk |-> b])
          ELSE ProcessBlock(s2, p)

(* handle_timeout: core.rs:227.  t = [round, author, hq] *)
HandleTimeout(s, t) ==
  IF t.round < s.r THEN s
  ELSE LET s1 == ProcessQC(s, t.hq) IN
       IF \E x \in s1.tagg : x[1] = t.round /\ x[2] = t.author
       THEN Emit(s1, [k |-> "err", e |-> "AuthorityReuse"])
       ELSE LET before == TimeoutStake(s1.tagg, t.round)
                s2 == [s1 EXCEPT !.tagg = @ \cup {<<t.round, t.author, Rnd(t.hq)>>}]
                after == before + Stake[t.author]
            IN IF before < Quorum /\ after >= Quorum
               THEN LET tc == [round |-> t.round,
                               hqr |-> SetMax({x[3] : x \in {y \in s2.tagg : y[1] = t.round}})]
                        s3 == AdvanceRound(Emit(s2, [k |-> "tcmade", tc |-> tc]), t.round)
                        s4 == Emit(s3, [k |-> "tc", tc |-> tc])
                    IN IF Leader(s4.r) = s.me THEN MakeReq(s4, tc) ELSE s4
               ELSE s2

(* local_timeout_round: core.rs:165 *)
LocalTimeout(s) ==
  LET t  == [round |-> s.r, author |-> s.me, hq |-> s.hq]
      s1 == [s EXCEPT !.lv = IF "timeout_bump" \in Weaken THEN @ ELSE Max(@, s.r)]
      s2 == Emit(s1, [k |-> "timeout", round |-> s.r, hq |-> s.hq])
  IN HandleTimeout(s2, t)

(* handle_tc: core.rs:400 *)
HandleTC(s, tc) ==
  IF tc.round < s.r THEN s
  ELSE LET s1 == AdvanceRound(s, tc.round) IN
       IF Leader(s1.r) = s.me THEN MakeReq(s1, tc) ELSE s1

(* proposer.rs make_block: the request carries the round and QC captured when it was queued *)
ProposerMake(s) ==
  LET m == Head(s.makeQ)
      p == [blk |-> <<m.round, s.me, 0, m.qc>>, tc |-> m.tc]
  IN Emit([s EXCEPT !.makeQ = Tail(@), !.loopQ = @ \cup {p}], [k |-> "propose", p |-> p])

(* rx_loopback *)
Loopback(s, p) == ProcessBlock([s EXCEPT !.loopQ = @ \ {p}], p)
(* synchronizer waiter: parent arrived in the store *)
SyncResume(s, p)    == [s EXCEPT !.parked = @ \ {p}, !.loopQ = @ \cup {p}]
(* payload waiter: all batches arrived *)
PayloadResume(s, p) == [s EXCEPT !.pwait = @ \ {p}, !.loopQ = @ \cup {p}]

Clear(s) == [s EXCEPT !.out = <<>>]

-----------------------------------------------------------------------------
(* The system: honest nodes, the network as monotone sets of honest         *)
(* messages, and observation variables that record what honest nodes did.   *)
VARIABLES ns,         \* [Honest -> node state]
          proposals,  \* honest proposals ever broadcast: set of [blk, tc]
          votes,      \* honest votes ever sent: set of [blk, author, to]
          timeouts,   \* honest timeouts ever broadcast: set of [round, author, hq]
          tcs,        \* TCs ever broadcast by honest nodes
          delivered,  \* [Honest -> sequence of blocks sent on the commit channel]
          hist        \* [Honest -> observations for the property monitors]
vars == <<ns, proposals, votes, timeouts, tcs, delivered, hist>>

InitHist == [votes |-> {}, timeouts |-> {}, props |-> {}, rounds |-> <<1>>, certs |-> {0}, commits |-> <<>>, shown |-> {}]

Init ==
  /\ ns = [n \in Honest |-> InitNode(n)]
  /\ proposals = {} /\ votes = {} /\ timeouts = {} /\ tcs = {}
  /\ delivered = [n \in Honest |-> <<>>]
  /\ hist = [n \in Honest |-> InitHist]

\* votes the adversary can use: those that travelled on the wire (a leader's own vote is handled locally and becomes
\* public only inside the QC of the block it proposes next)
HonestVoters(b) == {v.author : v \in {w \in votes : w.blk = b /\ (w.to # w.author \/ \E p \in proposals : Par(p.blk) = b)}}
Certified(b)    == b = Genesis \/ SumStake(HonestVoters(b) \cup Byz) >= Quorum
\* a TC [round, hqr] the adversary (or an honest aggregator) can exhibit
ConstructibleTC(tc) ==
  \E S \in SUBSET {t \in timeouts : t.round = tc.round} :
     /\ SumStake({t.author : t \in S} \cup Byz) >= Quorum
     /\ \A t \in S : Rnd(t.hq) <= tc.hqr
     /\ (Byz = {} => \E t \in S : Rnd(t.hq) = tc.hqr)
TCSpace == {NoTC} \cup {[round |-> r, hqr |-> h] : r \in 1..(MaxRound - 1), h \in 0..(MaxRound - 1)}

OutOf(s, kind) == {s.out[i] : i \in {j \in 1..Len(s.out) : s.out[j].k = kind}}
SeqOf(s, kind) == SelectSeq(s.out, LAMBDA e : e.k = kind)
RECURSIVE MapBlk(_)
MapBlk(q) == IF q = <<>> THEN <<>> ELSE <<Head(q).blk>> \o MapBlk(Tail(q))

(* Commit the effects of one handler run of node n (s = state after the handler). *)
\* cause = what was shown to the node in this step (for the monitors)
Publish(n, s, cause) ==
  /\ ns' = [ns EXCEPT ![n] = Clear(s)]
  /\ proposals' = proposals \cup {e.p : e \in OutOf(s, "propose")}
  /\ votes' = votes \cup {[blk |-> e.blk, author |-> n, to |-> e.to] : e \in OutOf(s, "vote")}
  /\ timeouts' = timeouts \cup {[round |-> e.round, author |-> n, hq |-> e.hq] : e \in OutOf(s, "timeout")}
  /\ tcs' = tcs \cup {e.tc : e \in OutOf(s, "tc")}
  /\ delivered' = [delivered EXCEPT ![n] = @ \o MapBlk(SeqOf(s, "commit"))]
  /\ hist' = [hist EXCEPT ![n] =
        [votes    |-> @.votes \cup {[blk |-> e.blk, tc |-> cause.tc, lvBefore |-> ns[n].lv, toBefore |-> {t.round : t \in @.timeouts}] : e \in OutOf(s, "vote")},
         timeouts |-> @.timeouts \cup {[round |-> e.round, hqr |-> Rnd(e.hq)] : e \in OutOf(s, "timeout")},
         props    |-> @.props \cup {e.p : e \in OutOf(s, "propose")},
         rounds   |-> IF s.r # ns[n].r THEN Append(@.rounds, s.r) ELSE @.rounds,
         certs    |-> @.certs \cup cause.certs
                        \cup {Rnd(e.blk) : e \in OutOf(s, "qc")} \cup {e.tc.round : e \in OutOf(s, "tcmade")},
         commits  |-> IF SeqOf(s, "commit") # <<>>
                      THEN Append(@.commits, [by |-> cause.blk, seq |-> MapBlk(SeqOf(s, "commit"))])
                      ELSE @.commits,
         shown    |-> @.shown \cup cause.shown]]

NoCause == [tc |-> NoTC, certs |-> {}, blk |-> Genesis, shown |-> {}]
PCause(p) == [tc |-> p.tc, certs |-> {Rnd(Par(p.blk))} \cup (IF p.tc # NoTC THEN {p.tc.round} ELSE {}),
              blk |-> p.blk, shown |-> {p.blk}]

(* ---- deliveries -------------------------------------------------------- *)
\* proposals n may be shown: honest proposals (possibly with the TC stripped or replaced by a relay,
\* since the TC is not covered by the block digest) and adversary blocks over certified parents
Deliverable(n) ==
  {p \in [blk : Universe \ {Genesis}, tc : TCSpace] :
     /\ Auth(p.blk) # n
     /\ \/ Auth(p.blk) \in Byz
        \/ \E q \in proposals : q.blk = p.blk
     /\ Certified(Par(p.blk))
     /\ (p.tc # NoTC => ConstructibleTC(p.tc) \/ p.tc \in tcs)}

RecvProposal(n, p, avail) ==
  /\ p \in Deliverable(n)
  /\ p \notin ns[n].parked /\ p \notin ns[n].pwait
  /\ Publish(n, HandleProposal(ns[n], p, avail), PCause(p))

RecvVote(n, v) ==
  /\ \/ v.author \in Byz /\ v.blk \in Universe \ {Genesis}
     \/ \E w \in votes : w.blk = v.blk /\ w.author = v.author /\ (w.to = n \/ w.to \in Byz)
  /\ Rnd(v.blk) >= ns[n].r
  /\ Publish(n, HandleVote(ns[n], v), NoCause)

RecvTimeout(n, t) ==
  /\ \/ t.author \in Byz /\ Certified(t.hq) /\ t.round \in 1..MaxRound /\ t.hq \in Universe
     \/ t \in timeouts /\ t.author # n
  /\ t.round >= ns[n].r
  /\ Publish(n, HandleTimeout(ns[n], t), [NoCause EXCEPT !.certs = {Rnd(t.hq)}])

RecvTC(n, tc) ==
  /\ tc # NoTC /\ (tc \in tcs \/ ConstructibleTC(tc))
  /\ tc.round >= ns[n].r
  /\ Publish(n, HandleTC(ns[n], tc), [NoCause EXCEPT !.certs = {tc.round}])

Timer(n) ==
  /\ ns[n].r < MaxRound
  /\ Publish(n, LocalTimeout(ns[n]), NoCause)

Propose(n) ==
  /\ ns[n].makeQ # <<>>
  /\ Head(ns[n].makeQ).round <= MaxRound
  /\ Publish(n, ProposerMake(ns[n]), NoCause)

DoLoopback(n, p) ==
  /\ p \in ns[n].loopQ
  /\ Publish(n, Loopback(ns[n], p), [PCause(p) EXCEPT !.certs = {}])

DoSyncResume(n, p) ==
  /\ p \in ns[n].parked /\ Par(p.blk) \in ns[n].stored
  /\ Publish(n, SyncResume(ns[n], p), NoCause)

DoPayloadResume(n, p) ==
  /\ p \in ns[n].pwait
  /\ Publish(n, PayloadResume(ns[n], p), NoCause)

Next ==
  \E n \in Honest :
    \/ \E p \in Deliverable(n), avail \in BOOLEAN : RecvProposal(n, p, avail)
    \/ \E b \in Universe \ {Genesis}, a \in Node \ {n} : RecvVote(n, [blk |-> b, author |-> a])
    \/ \E t \in timeouts : RecvTimeout(n, t)
    \/ \E a \in Byz, r \in 1..MaxRound, q \in Universe : RecvTimeout(n, [round |-> r, author |-> a, hq |-> q])
    \/ \E tc \in TCSpace : RecvTC(n, tc)
    \/ Timer(n)
    \/ Propose(n)
    \/ \E p \in ns[n].loopQ : DoLoopback(n, p)
    \/ \E p \in ns[n].parked : DoSyncResume(n, p)
    \/ \E p \in ns[n].pwait : DoPayloadResume(n, p)

Spec == Init /\ [][Next]_vars

-----------------------------------------------------------------------------
(* Properties.  Each is stated over what honest nodes *did* (delivered,     *)
(* hist), so the same formulas are the monitors of trace validation.       *)

\* C01
Agreement ==
  \A n, m \in Honest : \A i \in 1..Len(delivered[n]), j \in 1..Len(delivered[m]) :
     Ancestor(delivered[n][i], delivered[m][j]) \/ Ancestor(delivered[m][j], delivered[n][i])

\* C02
DeliveredIsChain ==
  \A n \in Honest : \A i \in 1..Len(delivered[n]) :
     /\ delivered[n][i] # Genesis
     /\ Par(delivered[n][i]) = (IF i = 1 THEN Genesis ELSE delivered[n][i - 1])

\* C03
VoteOncePerRound == \A n \in Honest : \A v, w \in hist[n].votes : Rnd(v.blk) = Rnd(w.blk) => v.blk = w.blk
VoteRoundsIncrease == \A n \in Honest : \A v \in hist[n].votes : Rnd(v.blk) > v.lvBefore
\* lvBefore >= every earlier vote round and every earlier timeout round (checked by LvCoversHistory)
LvCoversHistory == \A n \in Honest :
     /\ \A v \in hist[n].votes : ns[n].lv >= Rnd(v.blk)
     /\ \A t \in hist[n].timeouts : ns[n].lv >= t.round
NoVoteAfterTimeout == \A n \in Honest : \A v \in hist[n].votes : Rnd(v.blk) \notin v.toBefore
VoteJustified == \A n \in Honest : \A v \in hist[n].votes : LET b == v.blk IN
     /\ Rnd(Par(b)) < Rnd(b)
     /\ \/ Rnd(Par(b)) + 1 = Rnd(b)
        \/ v.tc # NoTC /\ v.tc.round + 1 = Rnd(b) /\ v.tc.hqr <= Rnd(Par(b))

\* C05: every batch of commits is triggered by processing a block whose parent b1 and grandparent b0
\* are in consecutive rounds; the newest delivered block is b0 and the rest are its ancestors
CommitNeedsTwoChain == \A n \in Honest : \A i \in 1..Len(hist[n].commits) :
     LET c == hist[n].commits[i]  b1 == Par(c.by)  b0 == Par(b1) IN
     /\ c.by # Genesis /\ b1 # Genesis
     /\ Rnd(b0) + 1 = Rnd(b1)
     /\ \A j \in 1..Len(c.seq) : Ancestor(c.seq[j], b0)
     /\ \E j \in 1..Len(c.seq) : c.seq[j] = b0

\* C09
VoteOnlyLeaderBlocks == \A n \in Honest : \A v \in hist[n].votes : Auth(v.blk) = Leader(Rnd(v.blk))
HonestNoEquivocation == \A n \in Honest : \A p, q \in hist[n].props : Rnd(p.blk) = Rnd(q.blk) => p.blk = q.blk

\* C10
RoundMonotone == \A n \in Honest : \A i \in 1..(Len(hist[n].rounds) - 1) : hist[n].rounds[i] < hist[n].rounds[i + 1]
RoundNeedsCertificate == \A n \in Honest : \A i \in 2..Len(hist[n].rounds) : (hist[n].rounds[i] - 1) \in hist[n].certs
TimeoutCarriesHighQC == \A n \in Honest : \A t \in hist[n].timeouts : \A v \in hist[n].votes :
     Rnd(v.blk) <= t.round => Rnd(Par(v.blk)) <= t.hqr

\* C07 (safety half): the store is closed under parents
StoredClosedUnderParent == \A n \in Honest : \A b \in ns[n].stored : Par(b) = Genesis \/ Par(b) \in ns[n].stored

\* what the global model establishes and the local model assumes (DESIGN 2.2)
CertSafe ==
  LET C == {b \in {w.blk : w \in votes} : Certified(b)} \cup {Genesis} IN
  /\ \A c, d \in C : Rnd(c) = Rnd(d) => c = d
  /\ \A b1 \in C : (b1 # Genesis /\ Rnd(b1) = Rnd(Par(b1)) + 1 /\ Par(b1) # Genesis) =>
        \A c \in C : Rnd(c) >= Rnd(Par(b1)) => Ancestor(Par(b1), c)

TypeOK == \A n \in Honest : ns[n].r \in 1..(MaxRound + 1) /\ ns[n].lv <= MaxRound + 1 /\ Rnd(ns[n].hq) < ns[n].r
=============================================================================
