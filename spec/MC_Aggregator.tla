---- MODULE MC_Aggregator ----
(* constants for the exhaustive runs of Aggregator.tla *)
EXTENDS Aggregator
Eq4  == [a \in 0..3 |-> 1]
Uneq4 == (0 :> 3) @@ (1 :> 1) @@ (2 :> 2) @@ (3 :> 1)       \* total 7, quorum 5: crossed by different subsets
Uneq5 == (0 :> 1) @@ (1 :> 1) @@ (2 :> 1) @@ (3 :> 2) @@ (4 :> 4) \* total 9, quorum 7
Eq7  == [a \in 0..6 |-> 1]
Three == (0 :> 1) @@ (1 :> 1) @@ (2 :> 2)                    \* total 4, quorum 3

====
