---- MODULE MC_AggregatorSim ----
(* behaviour generation for the replay into the real Aggregator *)
EXTENDS MC_Aggregator, Json
CONSTANT Depth
\* behaviour generation for the replay into the real Aggregator: history of calls with the predicted results
VARIABLE trace
gvars == <<vars, trace>>
GInit == Init /\ trace = <<>>
GNext ==
  \/ \E a \in Authors, h \in Hashes, r \in Rounds :
        AddVote(a, h, r) /\ trace' = Append(trace, [op |-> "vote", a |-> a, h |-> h, r |-> r, res |-> res'])
  \/ \E a \in Authors, r \in Rounds, q \in HQRs :
        AddTimeout(a, r, q) /\ trace' = Append(trace, [op |-> "timeout", a |-> a, r |-> r, hqr |-> q, res |-> res'])
  \/ \E r \in Rounds : Cleanup(r) /\ trace' = Append(trace, [op |-> "cleanup", r |-> r, res |-> res'])
GSpec == GInit /\ [][GNext]_gvars
EmitBeh == Len(trace) < Depth \/ PrintT(<<"BEHAVIOUR", ToJson(trace)>>)
StopAtDepth == Len(trace) <= Depth
====
