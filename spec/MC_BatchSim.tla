---- MODULE MC_BatchSim ----
(* schedule generation for the replay into the real BatchMaker: transaction sizes and clock advances *)
EXTENDS BatchMaker, Json
CONSTANT Depth
VARIABLE trace
svars == <<vars, trace>>
SInit == Init /\ trace = <<>>
SNext == \/ \E sz \in Sizes : RecvTx(sz) /\ trace' = Append(trace, [a |-> "tx", size |-> sz])
         \/ \E d \in TimeSteps : Advance(d) /\ trace' = Append(trace, [a |-> "advance", ms |-> d])
SSpec == SInit /\ [][SNext]_svars
EmitBeh == Len(trace) < Depth \/ PrintT(<<"BEHAVIOUR", ToJson(trace)>>)
StopAtDepth == Len(trace) <= Depth
====
