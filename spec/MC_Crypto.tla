---- MODULE MC_Crypto ----
EXTENDS Crypto, Json
ASSUME \A c \in Cases : PrintT(<<"CASE", ToJson([members |-> c.members])>>)
====
