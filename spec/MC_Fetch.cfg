SPECIFICATION Spec
CONSTANTS
 NB = 4
 Par <- P4
 Auth <- A4
 Pay <- Y4
 Rnd <- R4
 Batches = {11, 12}
 Peers = {1, 2}
 BlockTimer = 5
 BatchTimer = 2
 BRetryDelay = 3
 MRetryDelay = 1
 RetryNodes = 1
 GcDepth = 1
 Steps = {1, 3, 5}
 Weak = {}
INVARIANTS ParkedHasRequest RequestHasParked TimerNotPostponed WaitersNeedData MPendMissing
PROPERTIES ResumeSound RepliesStored
CHECK_DEADLOCK FALSE
