---- MODULE MC_Fetch ----
(* small universe for the exhaustive check of Fetch.tla: two blocks share a parent, payloads overlap *)
EXTENDS Fetch
P4  == <<0, 1, 1, 3>>
A4  == <<1, 2, 1, 2>>
Y4  == <<{}, {11}, {11, 12}, {12}>>
R4  == <<1, 2, 3, 4>>
P3  == <<0, 1, 1>>
A3  == <<1, 2, 1>>
Y3  == <<{}, {11}, {11, 12}>>
R3  == <<1, 2, 3>>
====
