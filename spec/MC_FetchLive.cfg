SPECIFICATION LSpec
CONSTANTS
 NB = 3
 Par <- Chain3
 Auth <- AuthBad
 Pay <- Pay3
 Rnd <- Rnd3
 Batches = {11, 12}
 Peers = {1, 2, 3}
 Good = {3}
 BlockTimer = 5
 BatchTimer = 2
 BRetryDelay = 0
 MRetryDelay = 0
 RetryNodes = 3
 GcDepth = 50
 Steps = {2, 5}
 Weak = {}
INVARIANTS ParkedHasRequest RequestHasParked TimerNotPostponed WaitersNeedData MPendMissing OldestFirst StoredHasPayload
PROPERTIES CatchUp ResumeSound
CHECK_DEADLOCK FALSE
