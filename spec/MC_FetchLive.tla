---- MODULE MC_FetchLive ----
(***************************************************************************)
(* Closed catch-up environment for Fetch.tla (C07 / C13 liveness): the     *)
(* node has nothing, the tip of a chain arrives, every author is silent    *)
(* (Bad), one other peer (Good) has every block and batch.  The core is    *)
(* three steps per block (get_parent_block, MempoolDriver::verify, store)  *)
(* exactly as process_block / handle_proposal order them; requests that    *)
(* the subsystem emits travel in `net`; looped-back blocks re-enter the    *)
(* core.                                                                   *)
(***************************************************************************)
EXTENDS Fetch
CONSTANTS Good
VARIABLES net, inbox, vq, sq
lvars == <<vars, net, inbox, vq, sq>>
Chain3 == <<0, 1, 2>>
AuthBad == <<1, 1, 2>>
Pay3 == <<{11}, {}, {11, 12}>>
Rnd3 == <<1, 2, 3>>

Frames(o) == {m \in o : m.k \in {"breq", "mreq"}}
            \cup UNION {{[k |-> "mreq", ds |-> m.ds, to |-> p] : p \in Peers} : m \in {x \in o : x.k = "mlucky"}}
Looped(o) == {m.b : m \in {x \in o : x.k \in {"resume", "presume"}}}

LInit == Init /\ net = {} /\ inbox = {NB} /\ vq = {} /\ sq = {}
CoreParent(b) == /\ b \in inbox /\ Ask(b)
                 /\ inbox' = inbox \ {b} /\ vq' = IF res' = "have" /\ b \notin stored THEN vq \cup {b} ELSE vq
                 /\ net' = net \cup Frames(out') /\ UNCHANGED sq
CoreVerify(b) == /\ b \in vq /\ Verify(b)
                 /\ vq' = vq \ {b} /\ sq' = IF res' = "ok" THEN sq \cup {b} ELSE sq
                 /\ net' = net \cup Frames(out') /\ UNCHANGED inbox
CoreStore(b)  == /\ b \in sq /\ Write(b)
                 /\ sq' = sq \ {b} /\ inbox' = inbox \cup Looped(out') /\ UNCHANGED <<net, vq>>
\* a looped-back block after its payload arrived goes through process_block again: parent, (payload is there), store
Answer(m) == /\ m \in net /\ m.k = "breq" /\ net' = net \ {m}
             /\ IF m.to \notin Good THEN UNCHANGED <<vars, inbox, vq, sq>>
                ELSE inbox' = inbox \cup {m.d} /\ UNCHANGED <<vars, vq, sq>>
Tick == \E dt \in Steps \cup {NextDeadline} : Advance(dt) /\ net' = net \cup Frames(out') /\ UNCHANGED <<inbox, vq, sq>>
BatchArrives(m, d) == /\ m \in net /\ m.k = "mreq" /\ m.to \in Good /\ d \in m.ds /\ d \notin stored
                      /\ Write(d) /\ inbox' = inbox \cup Looped(out') /\ UNCHANGED <<net, vq, sq>>
LNext == \/ \E b \in Blocks : CoreParent(b) \/ CoreVerify(b) \/ CoreStore(b)
         \/ \E m \in net : Answer(m) \/ (\E d \in Batches : BatchArrives(m, d))
         \/ Tick
LSpec == LInit /\ [][LNext]_lvars
         /\ (\A b \in Blocks : WF_lvars(CoreParent(b)) /\ WF_lvars(CoreVerify(b)) /\ WF_lvars(CoreStore(b)))
         /\ WF_lvars(Tick)
         /\ (\A p \in Good, d \in Blocks : WF_lvars(Answer([k |-> "breq", d |-> d, to |-> p])))
         /\ (\A q \in Good, ds \in SUBSET Batches, e \in Batches : WF_lvars(BatchArrives([k |-> "mreq", ds |-> ds, to |-> q], e)))

CatchUp == <>(Blocks \subseteq stored)
OldestFirst == \A b \in stored \cap Blocks : Par[b] = 0 \/ Par[b] \in stored
StoredHasPayload == \A b \in stored \cap Blocks : Pay[b] \subseteq stored
====
