---- MODULE MC_FetchSim ----
(* schedule generation for the replay into the real fetch subsystem (harness `fetch`): callers' moves, store writes,
   clock advances, helper requests in any order; rare moves are thinned so that the common paths get depth *)
EXTENDS Fetch, Sequences, Json
CONSTANT Depth
VARIABLE trace
svars == <<vars, trace>>
P6 == <<0, 1, 2, 2, 4, 5>>
A6 == <<1, 2, 3, 1, 2, 3>>
Y6 == <<{11}, {11, 12}, {}, {13}, {12, 13}, {14}>>
R6 == <<1, 2, 3, 4, 5, 6>>
SInit == Init /\ trace = <<>>
T(m) == trace' = Append(trace, m)
\* thinning by position in the schedule (TLC re-seeds RandomElement per state, so it cannot be used for weights)
K == Len(trace)
SNext ==
  \/ \E b \in {x \in Blocks : x % 3 = K % 3} : Ask(b) /\ T([a |-> "ask", b |-> b])
  \/ \E b \in {x \in Blocks : x % 3 = (K + 1) % 3} : Verify(b) /\ T([a |-> "verify", b |-> b])
  \/ \E key \in Keys \ stored : Write(key) /\ T([a |-> "write", key |-> key])
  \/ \E dt \in Steps \cup {NextDeadline} : Advance(dt) /\ T([a |-> "advance", ms |-> dt])
  \/ K % 8 = 7 /\ \E r \in 1..NB : Cleanup(r) /\ T([a |-> "cleanup", r |-> r])
  \/ K % 5 = 2 /\ \E d \in Keys, p \in Peers : BlockRequest(d, p) /\ T([a |-> "breqin", d |-> d, p |-> p])
  \/ K % 5 = 4 /\ \E ds \in {{11}, {12, 13}, {11, 14}, {13, 14, 12}}, p \in Peers :
        BatchRequest(ds, p) /\ T([a |-> "mreqin", ds |-> ds, p |-> p])
SSpec == SInit /\ [][SNext]_svars
EmitBeh == Len(trace) < Depth \/ PrintT(<<"BEHAVIOUR", ToJson(trace)>>)
StopAtDepth == Len(trace) <= Depth
====
