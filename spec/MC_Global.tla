---- MODULE MC_Global ----
(* Closed-system regime: several honest nodes and an adversary controlling the Byzantine authorities
   (Node \ Honest) and the network.  Two uses:
     GSpecX  - HotStuff!Next restricted by budgets: exhaustive for tiny constants;
     GSim    - random simulation with a focused scheduler (components picked independently), for
               N in {4,5,7}, unequal stakes, more rounds.  Every GSim behaviour is a behaviour of HotStuff!Spec
               (with a large enough universe); the focus only makes random walks deep instead of wide. *)
EXTENDS HotStuff, Json
CONSTANTS MaxTimeouts, MaxByzMsgs, SchedDepth,
          LatePayload   \* simulation regime: proposals may arrive before their batches (payload waiter, loop-back path)

S4  == [i \in 0..3 |-> 1]
S5  == [i \in 0..4 |-> 1]
S7  == [i \in 0..6 |-> 1]
S4u == (0 :> 2) @@ (1 :> 1) @@ (2 :> 2) @@ (3 :> 2)          \* total 7, quorum 5, f = 2: one authority of stake 2 may be Byzantine
S6u == (0 :> 3) @@ (1 :> 2) @@ (2 :> 2) @@ (3 :> 1) @@ (4 :> 1) @@ (5 :> 1)   \* total 10, quorum 7, f = 3

VARIABLES budget,   \* [timeouts |-> per-node count, byz |-> adversary messages used]
          acts      \* labels of the scheduler's steps (simulation regime only): the schedule, replayable on the rig
gvars == <<vars, budget, acts>>

GInit == Init /\ budget = [to |-> [n \in Honest |-> 0], byz |-> 0] /\ acts = <<>>

ByzUse == budget' = [budget EXCEPT !.byz = @ + 1] /\ budget.byz < MaxByzMsgs /\ UNCHANGED acts
NoUse  == UNCHANGED <<budget, acts>>
Lbl(x) == acts' = Append(acts, x) /\ UNCHANGED budget

\* ---- exhaustive regime ------------------------------------------------------------------------------
XNext ==
  \E n \in Honest :
    \/ \E p \in Deliverable(n) :
          /\ RecvProposal(n, p, TRUE)
          /\ IF Auth(p.blk) \in Byz \/ p \notin proposals THEN ByzUse ELSE NoUse
    \/ \E w \in votes : (w.to = n \/ w.to \in Byz) /\ RecvVote(n, [blk |-> w.blk, author |-> w.author]) /\ NoUse
    \/ \E b \in Universe \ {Genesis}, a \in Byz : RecvVote(n, [blk |-> b, author |-> a]) /\ ByzUse
    \/ \E t \in timeouts : RecvTimeout(n, t) /\ NoUse
    \/ \E a \in Byz, r \in 1..MaxRound, q \in Universe : Rnd(q) < r /\ RecvTimeout(n, [round |-> r, author |-> a, hq |-> q]) /\ ByzUse
    \/ \E tc \in tcs : RecvTC(n, tc) /\ NoUse
    \/ \E tc \in TCSpace \ tcs : RecvTC(n, tc) /\ ByzUse
    \/ /\ budget.to[n] < MaxTimeouts /\ Timer(n)
       /\ budget' = [budget EXCEPT !.to[n] = @ + 1] /\ UNCHANGED acts
    \/ Propose(n) /\ NoUse
    \/ \E p \in ns[n].loopQ : DoLoopback(n, p) /\ NoUse
    \/ \E p \in ns[n].parked : DoSyncResume(n, p) /\ NoUse
GSpecX == GInit /\ [][XNext]_gvars
XBound == \A n \in Honest : ns[n].r <= MaxRound

\* ---- simulation regime ------------------------------------------------------------------------------
Pick(S) == RandomElement(S)
MaxR == LET R == {ns[n].r : n \in Honest} IN CHOOSE x \in R : \A y \in R : y <= x
KnownBlocks == UNION {ns[n].stored \cup {p.blk : p \in ns[n].parked} \cup {p.blk : p \in ns[n].loopQ} : n \in Honest}
                  \cup {p.blk : p \in proposals} \cup {Genesis}
CertKnown == {b \in KnownBlocks : Certified(b) /\ Rnd(b) >= MaxR - 4}
WinR(lo, hi) == {r \in (MaxR + lo)..(MaxR + hi) : r >= 1 /\ r <= MaxRound}
ByzRounds == {r \in WinR(-2, 1) : Leader(r) \in Byz}
TCPool(r) == {NoTC} \cup {tc \in tcs : tc.round = r - 1}
               \cup {tc \in {[round |-> r - 1, hqr |-> h] : h \in 0..r} : r >= 2 /\ ConstructibleTC(tc)}

InternalEnabled(n) == ns[n].makeQ # <<>> \/ ns[n].loopQ # {} \/ \E p \in ns[n].parked : Par(p.blk) \in ns[n].stored
\* Every step of the scheduler is a parametrised action (usable by MC_Script to follow a recorded schedule) ...
PInternal(n, lbl) ==
    \/ lbl.a = "Propose" /\ Propose(n) /\ Lbl([a |-> "Propose", n |-> n])
    \/ lbl.a = "Loopback" /\ \E p \in ns[n].loopQ : p.blk = lbl.blk /\ DoLoopback(n, p) /\ Lbl([a |-> "Loopback", n |-> n, blk |-> p.blk])
    \/ lbl.a = "SyncResume" /\ \E p \in ns[n].parked : p.blk = lbl.blk /\ DoSyncResume(n, p) /\ Lbl([a |-> "SyncResume", n |-> n, blk |-> p.blk])
PHonestProposal(n, p) ==
    /\ p \in proposals /\ Auth(p.blk) # n /\ RecvProposal(n, p, TRUE)
    /\ Lbl([a |-> "HonestProposal", n |-> n, blk |-> p.blk, tc |-> p.tc])
PRelayedProposal(n, p) ==     \* a relay replaces or strips the TC (it is not covered by the block digest)
    /\ \E q \in proposals : q.blk = p.blk
    /\ (p.tc = NoTC \/ p.tc \in tcs \/ ConstructibleTC(p.tc))
    /\ Auth(p.blk) # n /\ p \notin ns[n].parked /\ Publish(n, HandleProposal(ns[n], p, TRUE), PCause(p))
    /\ Lbl([a |-> "RelayedProposal", n |-> n, blk |-> p.blk, tc |-> p.tc])
PByzProposal(n, p) ==
    /\ Auth(p.blk) \in Byz /\ Certified(Par(p.blk)) /\ Rnd(Par(p.blk)) < Rnd(p.blk)
    /\ (p.tc = NoTC \/ p.tc \in tcs \/ ConstructibleTC(p.tc))
    /\ p \notin ns[n].parked /\ p.blk \notin ns[n].stored
    /\ Publish(n, HandleProposal(ns[n], p, TRUE), PCause(p))
    /\ Lbl([a |-> "ByzProposal", n |-> n, blk |-> p.blk, tc |-> p.tc])
\* the proposal reaches n before (one of) its batches: the payload waiter parks it; it is looped back when the batch arrives
PLateProposal(n, p) ==
    /\ Auth(p.blk) # n
    /\ \/ \E q \in proposals : q.blk = p.blk
       \/ Auth(p.blk) \in Byz /\ Certified(Par(p.blk)) /\ Rnd(Par(p.blk)) < Rnd(p.blk)
    /\ (p.tc = NoTC \/ p.tc \in tcs \/ ConstructibleTC(p.tc))
    /\ p \notin ns[n].parked /\ p.blk \notin ns[n].stored /\ ~\E q \in ns[n].pwait : q.blk = p.blk
    /\ Publish(n, HandleProposal(ns[n], p, FALSE), PCause(p))
    /\ Lbl([a |-> "LateProposal", n |-> n, blk |-> p.blk, tc |-> p.tc])
PPayloadResume(n, b) ==
    /\ \E p \in ns[n].pwait : p.blk = b /\ DoPayloadResume(n, p)
    /\ Lbl([a |-> "PayloadResume", n |-> n, blk |-> b])
PHonestVote(n, w) ==
    /\ w \in votes /\ (w.to = n \/ w.to \in Byz) /\ Rnd(w.blk) >= ns[n].r
    /\ Publish(n, HandleVote(ns[n], [blk |-> w.blk, author |-> w.author]), NoCause)
    /\ Lbl([a |-> "HonestVote", n |-> n, blk |-> w.blk, author |-> w.author, to |-> w.to])
PByzVote(n, b, a) ==
    /\ a \in Byz /\ b # Genesis /\ Rnd(b) >= ns[n].r
    /\ Publish(n, HandleVote(ns[n], [blk |-> b, author |-> a]), NoCause)
    /\ Lbl([a |-> "ByzVote", n |-> n, blk |-> b, author |-> a])
PHonestTimeout(n, t) ==
    /\ t \in timeouts /\ t.author # n /\ t.round >= ns[n].r
    /\ Publish(n, HandleTimeout(ns[n], t), [NoCause EXCEPT !.certs = {Rnd(t.hq)}])
    /\ Lbl([a |-> "HonestTimeout", n |-> n, round |-> t.round, author |-> t.author, hq |-> t.hq])
PByzTimeout(n, t) ==
    /\ t.author \in Byz /\ Certified(t.hq) /\ Rnd(t.hq) < t.round /\ t.round >= ns[n].r
    /\ Publish(n, HandleTimeout(ns[n], t), [NoCause EXCEPT !.certs = {Rnd(t.hq)}])
    /\ Lbl([a |-> "ByzTimeout", n |-> n, round |-> t.round, author |-> t.author, hq |-> t.hq])
PTC(n, tc) ==
    /\ tc # NoTC /\ (tc \in tcs \/ ConstructibleTC(tc)) /\ tc.round >= ns[n].r
    /\ Publish(n, HandleTC(ns[n], tc), [NoCause EXCEPT !.certs = {tc.round}])
    /\ Lbl([a |-> "TC", n |-> n, tc |-> tc])
PTimer(n) == ns[n].r < MaxRound /\ Publish(n, LocalTimeout(ns[n]), NoCause) /\ Lbl([a |-> "Timer", n |-> n])

\* ... and the random scheduler picks the parameters
SimInternal(n) == \E k \in {"Propose", "Loopback", "SyncResume"} :
    \/ k = "Propose" /\ PInternal(n, [a |-> k])
    \/ k # "Propose" /\ \E p \in ns[n].loopQ \cup ns[n].parked : PInternal(n, [a |-> k, blk |-> p.blk])
UsefulProps(n) == {p \in proposals : Auth(p.blk) # n /\ p.blk \notin ns[n].stored /\ p \notin ns[n].parked /\ Rnd(p.blk) >= ns[n].r - 2}
UsefulVotes(n) == {w \in votes : (w.to = n \/ w.to \in Byz) /\ Rnd(w.blk) >= ns[n].r /\ <<w.blk, w.author>> \notin ns[n].vagg}
UsefulTimeouts(n) == {t \in timeouts : t.author # n /\ t.round >= ns[n].r /\ ~\E x \in ns[n].tagg : x[1] = t.round /\ x[2] = t.author}
SimHonestProposal(n) == UsefulProps(n) # {} /\ \E p \in {Pick(UsefulProps(n))} : PHonestProposal(n, p)
SimStrippedProposal(n) ==
  /\ proposals # {}
  /\ \E q \in {Pick(proposals)} : \E tc \in {Pick(TCPool(Rnd(q.blk)))} : PRelayedProposal(n, [blk |-> q.blk, tc |-> tc])
SimByzProposal(n) ==
  /\ ByzRounds # {} /\ CertKnown # {}
  /\ \E r \in {Pick(ByzRounds)}, v \in {Pick(Variants)}, par \in {Pick(CertKnown)} : \E tc \in {Pick(TCPool(r))} :
        PByzProposal(n, [blk |-> <<r, Leader(r), v, par>>, tc |-> tc])
SimLateProposal(n) ==
  /\ LatePayload
  /\ \/ UsefulProps(n) # {} /\ \E p \in {Pick(UsefulProps(n))} : PLateProposal(n, p)
     \/ /\ ByzRounds # {} /\ CertKnown # {}
        /\ \E r \in {Pick(ByzRounds)}, v \in {Pick(Variants)}, par \in {Pick(CertKnown)} : \E tc \in {Pick(TCPool(r))} :
              PLateProposal(n, [blk |-> <<r, Leader(r), v, par>>, tc |-> tc])
SimPayloadResume(n) == LatePayload /\ ns[n].pwait # {} /\ \E p \in {Pick(ns[n].pwait)} : PPayloadResume(n, p.blk)
SimHonestVote(n) == UsefulVotes(n) # {} /\ \E w \in {Pick(UsefulVotes(n))} : PHonestVote(n, w)
SimByzVote(n) == Byz # {} /\ \E b \in {Pick(KnownBlocks)}, a \in {Pick(Byz)} : PByzVote(n, b, a)
SimHonestTimeout(n) == UsefulTimeouts(n) # {} /\ \E t \in {Pick(UsefulTimeouts(n))} : PHonestTimeout(n, t)
SimByzTimeout(n) ==
  /\ Byz # {} /\ CertKnown # {} /\ WinR(-1, 1) # {}
  /\ \E a \in {Pick(Byz)}, r \in {Pick(WinR(-1, 1))}, q \in {Pick(CertKnown)} : PByzTimeout(n, [round |-> r, author |-> a, hq |-> q])
SimTC(n) == WinR(-1, 1) # {} /\ \E r \in {Pick(WinR(-1, 1))} : \E tc \in {Pick(TCPool(r + 1))} : PTC(n, tc)
SimTimer(n) == PTimer(n)

\* Note: TLC re-seeds RandomElement per state, so a step that leaves the state unchanged would repeat forever:
\* steps that change nothing are excluded (ns' # ns), and every node's actions are offered.
SimNext ==
  \E n \in Honest :
    IF InternalEnabled(n) THEN SimInternal(n)
    ELSE
         /\ \/ SimHonestProposal(n) \/ SimHonestProposal(n) \/ SimHonestProposal(n) \/ SimHonestProposal(n)
            \/ SimHonestProposal(n) \/ SimHonestProposal(n) \/ SimHonestProposal(n) \/ SimHonestProposal(n)
            \/ SimHonestVote(n) \/ SimHonestVote(n) \/ SimHonestVote(n) \/ SimHonestVote(n)
            \/ SimHonestVote(n) \/ SimHonestVote(n) \/ SimHonestVote(n) \/ SimHonestVote(n)
            \/ SimHonestTimeout(n) \/ SimHonestTimeout(n) \/ SimTC(n)
            \/ SimStrippedProposal(n) \/ SimByzProposal(n) \/ SimByzVote(n) \/ SimByzTimeout(n)
            \/ SimByzProposal(n) \/ SimByzProposal(n) \/ SimByzVote(n)
            \/ SimTimer(n)
            \/ SimLateProposal(n) \/ SimLateProposal(n) \/ SimPayloadResume(n) \/ SimPayloadResume(n) \/ SimPayloadResume(n)
         /\ ns' # ns
GSim == GInit /\ [][SimNext]_gvars

\* schedule extraction (spec -> code replay of the multi-node system): print the schedule when it reaches SchedDepth
EmitSched == Len(acts) < SchedDepth \/ PrintT(<<"BEHAVIOUR", ToJson([acts |-> acts])>>)
StopAtSchedDepth == Len(acts) <= SchedDepth

\* attack extraction: when Agreement fails (weakened models), print the schedule as JSON for the rig
AgreementJ == Agreement \/ (PrintT(<<"ATTACK", ToJson([acts |-> acts, delivered |-> delivered])>>) /\ FALSE)

\* how far simulations got (read from TLC's statistics via the driver): commits happen
SomeCommit == \E n \in Honest : Len(delivered[n]) > 0
\* probes (expected to be violated): how deep do simulations get?
ProbeCommits3 == \A n \in Honest : Len(delivered[n]) < 3
ProbeTwoCommitters == Cardinality({n \in Honest : Len(delivered[n]) >= 2}) < 2
ProbeShow == TLCGet("level") < 250 \/ PrintT(<<"LVL150", [n \in Honest |-> <<ns[n].r, ns[n].lv, Len(delivered[n]), Cardinality(ns[n].stored), Cardinality(ns[n].parked)>>], Cardinality(proposals), Cardinality(votes), Cardinality(timeouts)>>)
ProbeLevel == TLCGet("level") < 14
ProbeCommit1 == \A n \in Honest : Len(delivered[n]) < 1
ProbeRound4 == \A n \in Honest : ns[n].r < 4
ProbeRound8 == \A n \in Honest : ns[n].r < 8
====
