---- MODULE MC_Live ----
(* C06/C07 on the model: a closed system in which the Byzantine authorities are silent (crashed) and the network has
   stabilised: every message in flight is eventually delivered and a round timer fires only when nothing useful is left
   to deliver.  Under weak fairness of the scheduler every live node eventually commits (or the explored rounds end). *)
EXTENDS MC_Global
Quiet == \A m \in Honest : /\ UsefulProps(m) = {}
                            /\ {w \in UsefulVotes(m) : w.to = m} = {}
                            /\ UsefulTimeouts(m) = {}
                            /\ {tc \in tcs : tc.round >= ns[m].r} = {}
                            /\ ~InternalEnabled(m)
\* proposer.rs make_block: after broadcasting its block the proposer waits until authorities holding a quorum of the stake (its own
\* included) acknowledged the frame (network-level ACK on receipt), and only then takes the next Make request or mempool digest.
\* `pbusy[n]` = the acknowledgements still being collected (NotBusy when idle).  Silent authorities never acknowledge.
VARIABLE pbusy
lvars == <<gvars, pbusy>>
NotBusy == [blk |-> Genesis, acks |-> {}]
AckStake(S) == LET RECURSIVE Sm(_) Sm(T) == IF T = {} THEN 0 ELSE LET x == CHOOSE y \in T : TRUE IN Stake[x] + Sm(T \ {x}) IN Sm(S)
Enough(n, acks) == IF "proposer_excludes_self" \in Weaken THEN AckStake(acks) >= Quorum ELSE AckStake(acks \cup {n}) >= Quorum
LPropose(n) ==
  /\ pbusy[n] = NotBusy /\ ns[n].makeQ # <<>>
  /\ LET m == Head(ns[n].makeQ) IN pbusy' = [pbusy EXCEPT ![n] = [blk |-> <<m.round, n, 0, m.qc>>, acks |-> {}]]
  /\ Propose(n)
NetAck(n, m) ==     \* the frame carrying n's block reaches the live authority m, whose receiver acknowledges it
  /\ pbusy[n] # NotBusy /\ m \in Honest \ {n} /\ m \notin pbusy[n].acks
  /\ LET a == pbusy[n].acks \cup {m} IN
     pbusy' = [pbusy EXCEPT ![n] = IF Enough(n, a) THEN NotBusy ELSE [@ EXCEPT !.acks = a]]
  /\ UNCHANGED vars
AcksPending == \E n \in Honest : \E m \in Honest \ {n} : pbusy[n] # NotBusy /\ m \notin pbusy[n].acks
LiveNext ==
  /\ UNCHANGED <<budget, acts>>
  /\ \E n \in Honest :
       \/ (\E p \in UsefulProps(n) : RecvProposal(n, p, TRUE)) /\ UNCHANGED pbusy
       \/ (\E w \in UsefulVotes(n) : w.to = n /\ RecvVote(n, [blk |-> w.blk, author |-> w.author])) /\ UNCHANGED pbusy
       \/ (\E t \in UsefulTimeouts(n) : RecvTimeout(n, t)) /\ UNCHANGED pbusy
       \/ (\E tc \in tcs : tc.round >= ns[n].r /\ RecvTC(n, tc)) /\ UNCHANGED pbusy
       \/ Quiet /\ ~AcksPending /\ Timer(n) /\ UNCHANGED pbusy
       \/ LPropose(n)
       \/ \E m \in Honest : NetAck(n, m)
       \/ (\E p \in ns[n].loopQ : DoLoopback(n, p)) /\ UNCHANGED pbusy
       \/ (\E p \in ns[n].parked : DoSyncResume(n, p)) /\ UNCHANGED pbusy
LiveSpec == GInit /\ pbusy = [n \in Honest |-> NotBusy] /\ [][LiveNext]_lvars /\ WF_lvars(LiveNext)
Progress == <>(\/ \A n \in Honest : Len(delivered[n]) >= 1
               \/ \E n \in Honest : ns[n].r >= MaxRound)
\* every explored behaviour that reaches the last round has committed at least once somewhere (no silent loss of progress)
\* commits keep coming: by the time the explored rounds end somebody has committed twice
CommitsKeepComing == (\E n \in Honest : ns[n].r >= MaxRound) => \E n \in Honest : Len(delivered[n]) >= 2
CommitBeforeEnd == (\E n \in Honest : ns[n].r >= MaxRound) => \E n \in Honest : Len(delivered[n]) >= 1
====
