---- MODULE MC_Live ----
(* C06/C07 on the model: a closed system in which the Byzantine authorities are silent (crashed) and the network has
   stabilised: every message in flight is eventually delivered and a round timer fires only when nothing useful is left
   to deliver.  Under weak fairness of the scheduler every live node eventually commits (or the explored rounds end). *)
EXTENDS MC_Global
Quiet == \A m \in Honest : /\ UsefulProps(m) = {}
                            /\ {w \in UsefulVotes(m) : w.to = m} = {}
                            /\ UsefulTimeouts(m) = {}
                            /\ {tc \in tcs : tc.round >= ns[m].r} = {}
                            /\ ~InternalEnabled(m)
LiveNext ==
  /\ UNCHANGED <<budget, acts>>
  /\ \E n \in Honest :
       \/ \E p \in UsefulProps(n) : RecvProposal(n, p, TRUE)
       \/ \E w \in UsefulVotes(n) : w.to = n /\ RecvVote(n, [blk |-> w.blk, author |-> w.author])
       \/ \E t \in UsefulTimeouts(n) : RecvTimeout(n, t)
       \/ \E tc \in tcs : tc.round >= ns[n].r /\ RecvTC(n, tc)
       \/ Quiet /\ Timer(n)
       \/ Propose(n)
       \/ \E p \in ns[n].loopQ : DoLoopback(n, p)
       \/ \E p \in ns[n].parked : DoSyncResume(n, p)
LiveSpec == GInit /\ [][LiveNext]_gvars /\ WF_gvars(LiveNext)
Progress == <>(\/ \A n \in Honest : Len(delivered[n]) >= 1
               \/ \E n \in Honest : ns[n].r >= MaxRound)
\* every explored behaviour that reaches the last round has committed at least once somewhere (no silent loss of progress)
CommitBeforeEnd == (\E n \in Honest : ns[n].r >= MaxRound) => \E n \in Honest : Len(delivered[n]) >= 1
====
