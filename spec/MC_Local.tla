---- MODULE MC_Local ----
(* Open-system regime: one honest node against an environment that holds every other key.
   Byz = Node \ {Me} has quorum stake, so every certificate is constructible and the node can be shown
   any block of the universe in any order.  EnvSafe is the assumption discharged by the global model. *)
EXTENDS HotStuff
CONSTANTS Me, MaxParked, UseVotes, UseTimeouts, UseEnvSafe

S4 == [i \in 0..3 |-> 1]

Shown(n) == ns[n].stored \cup {p.blk : p \in ns[n].parked} \cup {p.blk : p \in ns[n].loopQ} \cup {p.blk : p \in ns[n].pwait}
Cert(S) == {Par(x) : x \in S}
EnvSafe(S) == LET C == Cert(S) IN
   /\ \A c, d \in C : Rnd(c) = Rnd(d) => c = d
   /\ \A b1 \in C : (b1 # Genesis /\ Par(b1) # Genesis /\ Rnd(b1) = Rnd(Par(b1)) + 1) =>
         \A c \in C : Rnd(c) >= Rnd(Par(b1)) => Ancestor(Par(b1), c)

LNext ==
  LET n == Me IN
    \/ \E p \in Deliverable(n) :
          /\ p.blk \notin ns[n].stored
          /\ (p.tc = NoTC \/ p.tc.round + 1 = Rnd(p.blk))
          /\ (UseEnvSafe => EnvSafe(Shown(n) \cup {p.blk}))
          /\ RecvProposal(n, p, TRUE)
    \/ UseVotes /\ \E b \in Universe \ {Genesis}, a \in Node \ {n} : RecvVote(n, [blk |-> b, author |-> a])
    \/ UseTimeouts /\ \E a \in Byz, r \in 1..MaxRound, q \in Universe : Rnd(q) < r /\ RecvTimeout(n, [round |-> r, author |-> a, hq |-> q])
    \/ \E tc \in TCSpace : RecvTC(n, tc)
    \/ Timer(n)
    \/ Propose(n)
    \/ \E p \in ns[n].loopQ : DoLoopback(n, p)
    \/ \E p \in ns[n].parked : DoSyncResume(n, p)
LSpec == Init /\ [][LNext]_vars

Bound == ns[Me].r <= MaxRound /\ Cardinality(ns[Me].parked) <= MaxParked
View == <<ns, delivered>>
====
