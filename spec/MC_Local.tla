---- MODULE MC_Local ----
(* Open-system regime: one honest node against an environment that holds every other key.
   Byz = Node \ {Me} has quorum stake, so every certificate is constructible and the node can be shown
   any block of the universe in any order.  EnvSafe is the assumption discharged by the global model
   (CertSafe): what the environment certifies never conflicts with a certified consecutive 2-chain. *)
EXTENDS HotStuff
CONSTANTS Me, MaxParked, UseVotes, UseTimeouts, UseEnvSafe

S4 == [i \in 0..3 |-> 1]
S4u == (0 :> 2) @@ (1 :> 1) @@ (2 :> 2) @@ (3 :> 2)      \* total 7, quorum 5
S5 == [i \in 0..4 |-> 1]

Shown(n) == ns[n].stored \cup {p.blk : p \in ns[n].parked} \cup {p.blk : p \in ns[n].loopQ} \cup {p.blk : p \in ns[n].pwait}
Cert(S) == {Par(x) : x \in S}
\* C = the blocks the environment has certified in front of the node
EnvSafeC(C) ==
   /\ \A c, d \in C : Rnd(c) = Rnd(d) => c = d
   /\ \A b1 \in C : (b1 # Genesis /\ Par(b1) # Genesis /\ Rnd(b1) = Rnd(Par(b1)) + 1) =>
         \A c \in C : Rnd(c) >= Rnd(Par(b1)) => Ancestor(Par(b1), c)
EnvSafe(S) == EnvSafeC(Cert(S))

EnvProposal(p) ==
   /\ p \in Deliverable(Me)
   /\ p.blk \notin ns[Me].stored
   /\ (p.tc = NoTC \/ p.tc.round + 1 = Rnd(p.blk))
   /\ (UseEnvSafe => EnvSafe(Shown(Me) \cup {p.blk}))
   /\ RecvProposal(Me, p, TRUE)
\* under EnvSafe a vote (a step towards a QC) and a timeout's high QC are certificates of the environment as well
EnvVote(v)    == UseVotes /\ v.author # Me /\ (UseEnvSafe => EnvSafeC(Cert(Shown(Me)) \cup {v.blk})) /\ RecvVote(Me, v)
EnvTimeout(t) == UseTimeouts /\ t.author \in Byz /\ Rnd(t.hq) < t.round /\ (UseEnvSafe => EnvSafeC(Cert(Shown(Me)) \cup {t.hq})) /\ RecvTimeout(Me, t)
EnvTC(tc)     == RecvTC(Me, tc)
TimerFire     == Timer(Me)
Internal ==
    \/ Propose(Me)
    \/ \E p \in ns[Me].loopQ : DoLoopback(Me, p)
    \/ \E p \in ns[Me].parked : DoSyncResume(Me, p)
InternalEnabled == ns[Me].makeQ # <<>> \/ ns[Me].loopQ # {} \/ \E p \in ns[Me].parked : Par(p.blk) \in ns[Me].stored

VoteSpace    == [blk : Universe \ {Genesis}, author : Node \ {Me}]
TimeoutSpace == [round : 1..MaxRound, author : Node \ {Me}, hq : Universe]

LNext ==
    \/ \E p \in Deliverable(Me) : EnvProposal(p)
    \/ \E v \in VoteSpace : EnvVote(v)
    \/ \E t \in TimeoutSpace : EnvTimeout(t)
    \/ \E tc \in TCSpace : EnvTC(tc)
    \/ TimerFire
    \/ Internal
LSpec == Init /\ [][LNext]_vars

Bound == ns[Me].r <= MaxRound /\ Cardinality(ns[Me].parked) <= MaxParked
View == <<ns, delivered>>
====
