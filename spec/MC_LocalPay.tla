---- MODULE MC_LocalPay ----
(* C08 on the open-system model: blocks of payload variant v > 0 reference one batch; the node's store holds the
   batches in `have`.  A proposal whose batch is missing is parked by the payload waiter and resumed when the batch
   arrives; the node never votes for (and never delivers) a block whose batches it does not store. *)
EXTENDS MC_Local
VARIABLE have
pvars == <<vars, have>>
PayloadKey(b) == IF b = Genesis \/ Var(b) = 0 THEN {} ELSE {<<Rnd(b), Var(b)>>}
AllKeys == UNION {PayloadKey(b) : b \in Universe}
PInit == Init /\ have = {}
PNext ==
    \/ \E p \in Deliverable(Me) :
          /\ p.blk \notin ns[Me].stored
          /\ (p.tc = NoTC \/ p.tc.round + 1 = Rnd(p.blk))
          /\ (UseEnvSafe => EnvSafe(Shown(Me) \cup {p.blk}))
          /\ RecvProposal(Me, p, PayloadKey(p.blk) \subseteq have) /\ UNCHANGED have
    \/ \E k \in AllKeys \ have : have' = have \cup {k} /\ UNCHANGED vars           \* a batch arrives (any order, or never)
    \/ \E p \in ns[Me].pwait : PayloadKey(p.blk) \subseteq have /\ DoPayloadResume(Me, p) /\ UNCHANGED have
    \/ \E tc \in TCSpace : EnvTC(tc) /\ UNCHANGED have
    \/ TimerFire /\ UNCHANGED have
    \/ Internal /\ UNCHANGED have
PSpec == PInit /\ [][PNext]_pvars
VotedHavePayload == \A v \in hist[Me].votes : Auth(v.blk) = Me \/ PayloadKey(v.blk) \subseteq have
CommittedHavePayload == \A i \in 1..Len(delivered[Me]) : PayloadKey(delivered[Me][i]) \subseteq have
StoredHavePayload == \A b \in ns[Me].stored : Auth(b) = Me \/ PayloadKey(b) \subseteq have
PView == <<ns, delivered, have>>
====
