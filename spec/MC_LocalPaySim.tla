---- MODULE MC_LocalPaySim ----
(* Behaviour generator for C08: the focused environment of MC_LocalSim, with payload-carrying blocks (variant v carries v
   batches) and batches that arrive one at a time, in any order, or never.  A proposal is handled with
   avail = (all its batches are in `have`); a parked proposal is resumed when its last batch arrives. *)
EXTENDS MC_LocalSim
VARIABLE have
psvars == <<svars, have>>
Keys(b) == IF b = Genesis THEN {} ELSE {<<Rnd(b), k>> : k \in 1..Var(b)}
PSInit == SInit /\ have = {}
PInternalEnabled == InternalEnabled \/ \E p \in ns[Me].pwait : Keys(p.blk) \subseteq have
PInternal == \/ Internal
             \/ \E p \in ns[Me].pwait : Keys(p.blk) \subseteq have /\ DoPayloadResume(Me, p)
PSimProposal ==
  /\ Win(-1, 2) # {}
  /\ \E r \in {Pick(Win(-1, 2))}, v \in {Pick(Variants)}, k \in {Pick(Recent)}, fresh \in {Pick({0, 0, 0, 1})} :
     \E r0 \in {Pick(Win(-2, 1))}, tc \in {Pick(TCPool(r))} :
       LET par == IF fresh = 1 /\ Rnd(k) < r0 /\ <<r0, Leader(r0), v, k>> \notin Known THEN <<r0, Leader(r0), v, k>> ELSE k
           p == [blk |-> <<r, Leader(r), v, par>>, tc |-> tc]
       IN /\ Leader(r) # Me
          /\ p.blk \notin ns[Me].stored
          /\ Rnd(par) < r
          /\ p \notin ns[Me].parked /\ p \notin ns[Me].pwait
          /\ SafeWith({p.blk}, {})
          /\ Publish(Me, HandleProposal(ns[Me], p, Keys(p.blk) \subseteq have), PCause(p))
          /\ trace' = Append(trace, [a |-> "Proposal", blk |-> p.blk, tc |-> p.tc, avail |-> FALSE])
          /\ UNCHANGED have
\* a proposal by an authority that is NOT the leader of its round, carrying batches the node lacks; the batches arrive right afterwards.
\* The node rejects it (WrongLeader) before anything else, so nothing may wait for those batches and nothing is voted.
PSimWrongLeader ==
  /\ Cur >= 1 /\ Cur <= MaxRound /\ Variants \ {0} # {} /\ Node \ {Leader(Cur), Me} # {}
  /\ \E k \in {Pick(Recent)}, a \in {Pick(Node \ {Leader(Cur), Me})}, v \in {Pick(Variants \ {0})} :
       LET p == [blk |-> <<Cur, a, v, k>>, tc |-> NoTC]
           arrivals == [i \in 1..v |-> [a |-> "Batch", round |-> Cur, k |-> i]] IN
       /\ Rnd(k) < Cur
       /\ p.blk \notin ns[Me].stored
       /\ Publish(Me, HandleProposal(ns[Me], p, FALSE), NoCause)
       /\ trace' = Append(trace, [a |-> "Proposal", blk |-> p.blk, tc |-> p.tc, avail |-> FALSE]) \o arrivals
       /\ have' = have \cup Keys(p.blk)
WantedKeys == UNION {Keys(p.blk) : p \in ns[Me].pwait} \ have
PBatch ==
  /\ WantedKeys # {}
  /\ \E key \in {Pick(WantedKeys)} :
       /\ have' = have \cup {key}
       /\ trace' = Append(trace, [a |-> "Batch", round |-> key[1], k |-> key[2]])
       /\ UNCHANGED vars
PExternal == \/ PSimProposal \/ PSimProposal \/ PBatch \/ PBatch \/ PSimWrongLeader
             \/ (SimTC /\ UNCHANGED have) \/ (SimTimer /\ UNCHANGED have) \/ (SimVote /\ UNCHANGED have) \/ (SimTimeout /\ UNCHANGED have)
PSNext == IF PInternalEnabled THEN PInternal /\ UNCHANGED <<trace, have>> ELSE PExternal
PSSpec == PSInit /\ [][PSNext]_psvars
\* C08 on the model
VotedHave == \A v \in hist[Me].votes : Auth(v.blk) = Me \/ Keys(v.blk) \subseteq have
CommittedHave == \A i \in 1..Len(delivered[Me]) : Keys(delivered[Me][i]) \subseteq have
====
