---- MODULE MC_LocalSim ----
(* Behaviour generator for spec -> code replay.  The open-system model (one honest node Me, the environment
   holds every other key) with a *focused* environment: it shows the node blocks near its current round that
   extend what the node already knows (or a fresh unknown parent, to exercise parking and sync), votes for
   known blocks, timeouts and TCs near the current round.  Every behaviour generated here is a behaviour of
   MC_Local!LSpec for a large enough universe; the focus only makes random walks deep instead of wide.
   Internal steps of the node (proposer, loopback, sync resume) run to completion first, as they do in the rig.
   Run with `tlc -simulate`; every behaviour that reaches Depth is printed as one JSON line. *)
EXTENDS MC_Local, Json
CONSTANTS Depth, Weird
VARIABLE trace
svars == <<vars, trace>>

SInit == Init /\ trace = <<>>

Cur   == ns[Me].r
Known == Shown(Me) \cup {Genesis} \cup {p.blk : p \in hist[Me].props}
Win(lo, hi) == {r \in (Cur + lo)..(Cur + hi) : r >= 1 /\ r <= MaxRound}
Recent == {x \in Known : Rnd(x) >= Cur - 4}
\* components are picked independently (cheap), guards are applied afterwards
TCPool(r) == {NoTC, NoTC} \cup {[round |-> r - 1, hqr |-> h] : h \in 0..(r - 1)}
                  \cup (IF Weird THEN {[round |-> q, hqr |-> h] : q \in Win(-2, 1), h \in 0..MaxRound} ELSE {})
VoteCands    == [blk : {b \in Known \ {Genesis} : Rnd(b) >= Cur - 1}, author : Node \ {Me}]
TimeoutCands == {t \in [round : Win(-1, 1), author : Node \ {Me}, hq : Recent] : Rnd(t.hq) < t.round}
TCCands      == {[round |-> r, hqr |-> h] : r \in Win(-1, 1), h \in 0..MaxRound}

Pick(S) == RandomElement(S)
\* What the environment certifies in front of the node is not only the parent of every block it shows: a timeout carries a QC for its
\* `hq`, and a vote of the environment is a step towards a QC for the block voted.  The assumption EnvSafe (C02) has to hold for all of
\* them together -- an environment that certifies two blocks of one round through a proposal and a timeout is not one that <= f Byzantine
\* authorities can build.  (Found by the thorough tier: stakes 2,1,2,2, depth 40 -- a conflicting commit built from a timeout's QC.)
EnvShown == {trace[i].hq  : i \in {j \in 1..Len(trace) : trace[j].a = "Timeout"}} \cup
            {trace[i].blk : i \in {j \in 1..Len(trace) : trace[j].a = "Vote" /\ "forged" \notin DOMAIN trace[j]}}
SafeWith(S, X) == UseEnvSafe => EnvSafeC(Cert(Shown(Me) \cup S) \cup EnvShown \cup X)

SimProposal ==
  /\ Win(-1, 2) # {}
  /\ \E r \in {Pick(Win(-1, 2))}, v \in {Pick(Variants)}, k \in {Pick(Recent)}, fresh \in {Pick({0, 0, 0, 1})} :
     \E r0 \in {Pick(Win(-2, 1))}, tc \in {Pick(TCPool(r))} :
       LET par == IF fresh = 1 /\ Rnd(k) < r0 /\ <<r0, Leader(r0), v, k>> \notin Known THEN <<r0, Leader(r0), v, k>> ELSE k
           p == [blk |-> <<r, Leader(r), v, par>>, tc |-> tc]
       IN /\ Leader(r) # Me
          /\ p.blk \notin ns[Me].stored
          /\ (Weird \/ Rnd(par) < r)
          /\ p \notin ns[Me].parked /\ p \notin ns[Me].pwait
          /\ SafeWith({p.blk}, {})
          /\ Publish(Me, HandleProposal(ns[Me], p, TRUE), PCause(p))
          /\ trace' = Append(trace, [a |-> "Proposal", blk |-> p.blk, tc |-> p.tc])
\* a proposal whose QC is a look-alike of QC::genesis() (round 0, no votes) naming a block the node has stored: it must be rejected, so the
\* model does not move.  (Variant 9 keeps the abstract name apart from honest blocks; the harness builds it with an empty payload.)
SimForged ==
  /\ Win(0, 2) # {} /\ ns[Me].stored # {}
  /\ \E r \in {Pick(Win(0, 2))}, k \in {Pick(ns[Me].stored)} :
       /\ Leader(r) # Me /\ Rnd(k) < r
       /\ trace' = Append(trace, [a |-> "Proposal", blk |-> <<r, Leader(r), 9, k>>, tc |-> NoTC, forged |-> TRUE])
       /\ UNCHANGED vars
\* a vote in the node's OWN name that it never signed (another authority's signature): it must be rejected, the model does not move
SimForgedVote ==
  /\ UseVotes /\ {b \in Known \ {Genesis} : Rnd(b) >= Cur - 1} # {}
  /\ \E b \in {Pick({x \in Known \ {Genesis} : Rnd(x) >= Cur - 1})} :
       /\ trace' = Append(trace, [a |-> "Vote", blk |-> b, author |-> Me, forged |-> TRUE])
       /\ UNCHANGED vars
SimVote ==
  /\ UseVotes /\ VoteCands # {}
  /\ \E v \in {Pick(VoteCands)} :
       /\ SafeWith({}, {v.blk})
       /\ Publish(Me, HandleVote(ns[Me], v), NoCause)
       /\ trace' = Append(trace, [a |-> "Vote", blk |-> v.blk, author |-> v.author])
SimTimeout ==
  /\ UseTimeouts /\ TimeoutCands # {}
  /\ \E t \in {Pick(TimeoutCands)} :
       /\ SafeWith({}, {t.hq})
       /\ Publish(Me, HandleTimeout(ns[Me], t), [NoCause EXCEPT !.certs = {Rnd(t.hq)}])
       /\ trace' = Append(trace, [a |-> "Timeout", round |-> t.round, author |-> t.author, hq |-> t.hq])
SimTC ==
  /\ TCCands # {}
  /\ \E tc \in {Pick(TCCands)} :
       /\ Publish(Me, HandleTC(ns[Me], tc), [NoCause EXCEPT !.certs = {tc.round}])
       /\ trace' = Append(trace, [a |-> "TC", tc |-> tc])
SimTimer ==
  /\ Cur < MaxRound
  /\ Publish(Me, LocalTimeout(ns[Me]), NoCause)
  /\ trace' = Append(trace, [a |-> "Timer"])

\* proposals are the most informative stimulus: give them more weight
External == SimProposal \/ SimProposal \/ SimVote \/ SimTimeout \/ SimTC \/ SimTimer \/ SimForged \/ SimForgedVote
SNext == IF InternalEnabled THEN Internal /\ UNCHANGED trace ELSE External
SSpec == SInit /\ [][SNext]_svars

EmitBeh == Len(trace) < Depth \/ PrintT(<<"BEHAVIOUR", ToJson(trace)>>)
StopAtDepth == Len(trace) <= Depth
SBound == Cardinality(ns[Me].parked) <= MaxParked
====
