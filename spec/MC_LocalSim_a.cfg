SPECIFICATION SSpec
CONSTANTS
 N = 4
 Stake <- S4
 Honest = {1}
 Me = 1
 MaxRound = 12
 Variants = {0}
 Weaken = {}
 CommitAlgo = "fixed"
 MaxParked = 2
 UseVotes = TRUE
 UseTimeouts = TRUE
 UseEnvSafe = TRUE
 Depth = 30
 Weird = FALSE
CONSTRAINT SBound
CONSTRAINT StopAtDepth
INVARIANTS EmitBeh DeliveredIsChain VoteOncePerRound VoteRoundsIncrease NoVoteAfterTimeout VoteJustified CommitNeedsTwoChain VoteOnlyLeaderBlocks HonestNoEquivocation RoundMonotone RoundNeedsCertificate TimeoutCarriesHighQC StoredClosedUnderParent
CHECK_DEADLOCK FALSE
