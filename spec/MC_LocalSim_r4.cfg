SPECIFICATION SSpec
CONSTANTS
 N = 4
 Stake <- S4
 Honest = {1}
 Me = 1
 MaxRound = 4
 Variants = {0}
 Weaken = {}
 CommitAlgo = "fixed"
 MaxParked = 2
 UseVotes = TRUE
 UseTimeouts = TRUE
 UseEnvSafe = TRUE
 Depth = 10
CONSTRAINT Bound
CONSTRAINT StopAtDepth
INVARIANT EmitBeh
CHECK_DEADLOCK FALSE
