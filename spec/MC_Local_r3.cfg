SPECIFICATION LSpec
CONSTANTS
 N = 4
 Stake <- S4
 Honest = {1}
 Me = 1
 MaxRound = 3
 Variants = {0}
 Weaken = {}
 CommitAlgo = "fixed"
 MaxParked = 1
 UseVotes = FALSE
 UseTimeouts = FALSE
 UseEnvSafe = TRUE
CONSTRAINT Bound
INVARIANTS DeliveredIsChain VoteOncePerRound VoteRoundsIncrease LvCoversHistory NoVoteAfterTimeout VoteJustified CommitNeedsTwoChain VoteOnlyLeaderBlocks HonestNoEquivocation RoundMonotone RoundNeedsCertificate TimeoutCarriesHighQC StoredClosedUnderParent TypeOK
CHECK_DEADLOCK FALSE
