---- MODULE MC_Node ----
EXTENDS Node
NS4 == [i \in 0..3 |-> 1]
NS3 == [i \in 0..2 |-> 1]
NS4u == (0 :> 2) @@ (1 :> 1) @@ (2 :> 2) @@ (3 :> 2)
====
