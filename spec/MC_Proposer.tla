---- MODULE MC_Proposer ----
(* exhaustive check of Proposer.tla: every digest handed over once (history `sent`, `cleaned`), bounded queues *)
EXTENDS Proposer
PS4  == (0 :> 1) @@ (1 :> 1) @@ (2 :> 1) @@ (3 :> 1)
PS4u == (0 :> 1) @@ (1 :> 3) @@ (2 :> 2) @@ (3 :> 1)
PS4b == (0 :> 5) @@ (1 :> 1) @@ (2 :> 1) @@ (3 :> 1)      \* own stake alone is a quorum
VARIABLES sent, cleaned
mvars == <<vars, sent, cleaned>>
MInit == Init /\ sent = {} /\ cleaned = {}
MNext == \/ \E d \in Digests \ sent : SendDigest(d) /\ sent' = sent \cup {d} /\ UNCHANGED cleaned
         \/ SendMake /\ UNCHANGED <<sent, cleaned>>
         \/ \E ds \in SUBSET sent : ds # {} /\ Len(cq) < 2 /\ SendCleanup(ds) /\ UNCHANGED <<sent, cleaned>>
         \/ \E p \in Others : PeerAck(p) /\ UNCHANGED <<sent, cleaned>>
         \/ TakeDigest /\ UNCHANGED <<sent, cleaned>>
         \/ /\ TakeCommand /\ UNCHANGED sent
            /\ cleaned' = IF cq # <<>> /\ Head(cq).k = "cleanup" THEN cleaned \cup Head(cq).ds ELSE cleaned
MSpec == MInit /\ [][MNext]_mvars /\ WF_vars(TakeDigest) /\ WF_vars(TakeCommand)
InQ(d) == \E i \in 1..Len(dq) : dq[i] = d
\* C13: nothing handed over is lost -- it is queued, buffered, in a created block, or was cleaned up
NothingLost == \A d \in sent : InQ(d) \/ d \in buffer \/ d \in cleaned \/ \E i \in 1..Len(made) : d \in made[i]
\* once idle with an empty command queue, a queued Make is served (no stall): liveness
Served == [](\A i \in 1..NMakes : (Len(made) >= i /\ Stake[Me] + Sum(acks[i]) >= Quorum /\ i = Len(made)) => <>(~waiting \/ Len(made) > i))
====
