---- MODULE MC_ProposerSim ----
(* schedule generation for the replay into the real Proposer task: digests, Make / Cleanup commands and peer ACKs.  tokio::select!
   is free to take either channel when both are ready, so the generator never lets digests AND commands queue up at the same
   time while the task waits for acknowledgements (the exhaustive model explores both orders; the replay needs a determinate one). *)
EXTENDS MC_Proposer, Json
CONSTANT Depth
VARIABLE trace
svars == <<mvars, trace>>
SInit == MInit /\ trace = <<>>
T(m) == trace' = Append(trace, m)
IntEnabled == ~waiting /\ (dq # <<>> \/ cq # <<>>)
Internal == \/ TakeDigest /\ UNCHANGED <<sent, cleaned, trace>>
            \/ /\ TakeCommand /\ UNCHANGED <<sent, trace>>
               /\ cleaned' = IF Head(cq).k = "cleanup" THEN cleaned \cup Head(cq).ds ELSE cleaned
External ==
  \/ \E d \in Digests \ sent : cq = <<>> /\ SendDigest(d) /\ sent' = sent \cup {d} /\ UNCHANGED cleaned /\ T([a |-> "digest", d |-> d])
  \/ dq = <<>> /\ SendMake /\ UNCHANGED <<sent, cleaned>> /\ T([a |-> "make"])
  \/ \E ds \in {{x} : x \in sent} \cup {sent} : ds # {} /\ Len(trace) % 4 = 3 /\ dq = <<>> /\ Len(cq) < 3 /\ SendCleanup(ds) /\ UNCHANGED <<sent, cleaned>> /\ T([a |-> "cleanup", ds |-> ds])
  \/ \E p \in Others : PeerAck(p) /\ UNCHANGED <<sent, cleaned>> /\ T([a |-> "ack", p |-> p])
SNext == IF IntEnabled THEN Internal ELSE External
SSpec == SInit /\ [][SNext]_svars
EmitBeh == Len(trace) < Depth \/ PrintT(<<"BEHAVIOUR", ToJson(trace)>>)
StopAtDepth == Len(trace) <= Depth
====
