---- MODULE MC_QW ----
EXTENDS QuorumWaiter
MinusOne == -1
QS4 == [i \in 0..3 |-> 1]
QS4u == (0 :> 1) @@ (1 :> 3) @@ (2 :> 2) @@ (3 :> 1)
QS5 == (0 :> 2) @@ (1 :> 1) @@ (2 :> 1) @@ (3 :> 1) @@ (4 :> 3)
====
