---- MODULE MC_QWNetSim ----
(* schedule generation for the replay into the real BatchMaker + ReliableSender + QuorumWaiter: seals and peer ACKs in any order *)
EXTENDS MC_QWNet, Json
CONSTANTS Depth,
          BurstFirst   \* TRUE: every batch is sealed before the first acknowledgement (a backlog builds up)
VARIABLE trace
svars == <<vars, trace>>
SInit == Init /\ trace = <<>>
IntEnabled == (head = 0 /\ NextUnreleased <= sealed) \/ (head # 0 /\ {x \in Others : <<head, x>> \in done} \ counted # {})
SNext == IF IntEnabled THEN (Take \/ Count) /\ UNCHANGED trace
         ELSE \/ Seal /\ trace' = Append(trace, [a |-> "seal"])
              \/ \E p \in Others : (BurstFirst => sealed = NBatches) /\ Ack(p) /\ trace' = Append(trace, [a |-> "ack", p |-> p])
SSpec == SInit /\ [][SNext]_svars
EmitBeh == Len(trace) < Depth \/ PrintT(<<"BEHAVIOUR", ToJson(trace)>>)
StopAtDepth == Len(trace) <= Depth
====
