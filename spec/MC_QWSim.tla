---- MODULE MC_QWSim ----
(* schedule generation for the replay into the real QuorumWaiter: batch submissions and acknowledgements in any order *)
EXTENDS MC_QW, Json
CONSTANT Depth
VARIABLE trace
svars == <<vars, trace>>
SInit == Init /\ trace = <<>>
IntEnabled == (head = 0 /\ NextUnreleased <= submitted) \/ (head # 0 /\ acked[head] \ counted # {})
SNext == IF IntEnabled THEN (Take \/ Count) /\ UNCHANGED trace
         ELSE \/ Submit /\ trace' = Append(trace, [a |-> "submit", b |-> submitted + 1])
              \/ \E b \in 1..NBatches, p \in Others : Ack(b, p) /\ trace' = Append(trace, [a |-> "ack", b |-> b, p |-> p])
SSpec == SInit /\ [][SNext]_svars
EmitBeh == Len(trace) < Depth \/ PrintT(<<"BEHAVIOUR", ToJson(trace)>>)
StopAtDepth == Len(trace) <= Depth
====
