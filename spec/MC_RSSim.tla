---- MODULE MC_RSSim ----
(* Schedule generation for the replay into the real ReliableSender: the environment's moves (caller, peer, network,
   time) are recorded; the connection task's own steps run to completion in between, as they do when the harness lets
   the runtime run.  `refusing` and `Advance` make connection refusal and the back-off timer environment moves. *)
EXTENDS ReliableSender, Json
CONSTANT Depth
VARIABLES refusing, trace
svars == <<vars, refusing, trace>>
SInit == Init /\ refusing = FALSE /\ trace = <<>>
T(x) == trace' = Append(trace, x)
IntStep ==
  \/ ~refusing /\ ConnectOk
  \/ refusing /\ ConnectFail
  \/ BackoffDrain \/ WriteNext \/ TakeInq \/ ReadAck
IntEnabled ==
  \/ conn = "down" /\ (~refusing \/ refuses < MaxRefuse)
  \/ conn = "backoff" /\ inq # <<>>
  \/ conn = "up" /\ (buffer # <<>> \/ inq # <<>> \/ (wireIn # <<>> /\ pending # <<>>))
ExtStep ==
  \/ Send /\ T([a |-> "send", id |-> next]) /\ UNCHANGED refusing
  \/ \E i \in Ids : Cancel(i) /\ T([a |-> "cancel", id |-> i]) /\ UNCHANGED refusing
  \/ PeerRead /\ T([a |-> "peer_read"]) /\ UNCHANGED refusing
  \/ PeerReply /\ T([a |-> "peer_reply"]) /\ UNCHANGED refusing
  \/ Break /\ T([a |-> "break"]) /\ UNCHANGED refusing
  \/ /\ ~refusing /\ refusing' = TRUE /\ T([a |-> "refuse_on"]) /\ UNCHANGED vars
  \/ /\ refusing /\ refusing' = FALSE /\ T([a |-> "refuse_off"]) /\ UNCHANGED vars
  \/ /\ BackoffExpire /\ T([a |-> "advance"]) /\ UNCHANGED refusing
SNext == IF IntEnabled THEN IntStep /\ UNCHANGED <<refusing, trace>> ELSE ExtStep
SSpec == SInit /\ [][SNext]_svars
EmitBeh == Len(trace) < Depth \/ PrintT(<<"BEHAVIOUR", ToJson(trace)>>)
StopAtDepth == Len(trace) <= Depth
====
