---- MODULE MC_Script ----
(* Script validation: a schedule recorded from a TLC simulation (the `acts` labels, one JSON file) is followed step by
   step through the parametrised actions of MC_Global.  Used for attack scripts: with the weakened rule the script must
   run to its end and end in an Agreement violation; with Weaken = {} TLC reports where it gets blocked (or that the
   end state satisfies Agreement). *)
EXTENDS MC_Global, IOUtils
Script == JsonDeserialize(IOEnv.SCRIPT).acts
VARIABLE pos
svars == <<gvars, pos>>
SInit == GInit /\ pos = 1
Follow(e) ==
  LET n == e.n IN
  CASE e.a \in {"Propose", "Loopback", "SyncResume"} -> PInternal(n, e)
    [] e.a = "HonestProposal"  -> PHonestProposal(n, [blk |-> e.blk, tc |-> e.tc])
    [] e.a = "RelayedProposal" -> PRelayedProposal(n, [blk |-> e.blk, tc |-> e.tc])
    [] e.a = "ByzProposal"     -> PByzProposal(n, [blk |-> e.blk, tc |-> e.tc])
    [] e.a = "LateProposal"    -> PLateProposal(n, [blk |-> e.blk, tc |-> e.tc])
    [] e.a = "PayloadResume"   -> PPayloadResume(n, e.blk)
    [] e.a = "HonestVote"      -> PHonestVote(n, [blk |-> e.blk, author |-> e.author, to |-> e.to])
    [] e.a = "ByzVote"         -> PByzVote(n, e.blk, e.author)
    [] e.a = "HonestTimeout"   -> PHonestTimeout(n, [round |-> e.round, author |-> e.author, hq |-> e.hq])
    [] e.a = "ByzTimeout"      -> PByzTimeout(n, [round |-> e.round, author |-> e.author, hq |-> e.hq])
    [] e.a = "TC"              -> PTC(n, e.tc)
    [] e.a = "Timer"           -> PTimer(n)
SNext == pos <= Len(Script) /\ Follow(Script[pos]) /\ pos' = pos + 1
SSpec == SInit /\ [][SNext]_svars
\* verdict: every reached position is printed; the last line tells how far the script got and whether Agreement holds there
Progress == PrintT(<<"AT", pos - 1, "of", Len(Script), "agreement", Agreement>>)
====
