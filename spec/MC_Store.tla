---- MODULE MC_Store ----
(* constants and behaviour generation for Store.tla.  For the replay into the real Store the task's
   applications are grouped into Drain steps (the real task drains its channel whenever it runs). *)
EXTENDS Store, Json
CONSTANT Depth
VARIABLE trace
gvars == <<vars, trace>>
GInit == Init /\ trace = <<>>
GNext ==
  \/ \E h \in Handles, k \in Keys, v \in Vals : WriteR(h, k, v) /\ trace' = Append(trace, [op |-> "write", h |-> h, key |-> k, val |-> v])
  \/ \E h \in Handles, k \in Keys : Read(h, k) /\ trace' = Append(trace, [op |-> "read", h |-> h, key |-> k])
  \/ \E h \in Handles, k \in Keys : NotifyRead(h, k) /\ trace' = Append(trace, [op |-> "notify", h |-> h, key |-> k])
  \/ Apply /\ trace' = (IF cmdQ' = <<>> THEN Append(trace, [op |-> "drain", resp |-> resp', db |-> db']) ELSE trace)
GSpec == GInit /\ [][GNext]_gvars
\* emit when the behaviour is complete: MaxOps commands enqueued and all of them applied (the last step is a drain)
EmitBeh == ~(Len(log) = MaxOps /\ cmdQ = <<>>) \/ PrintT(<<"BEHAVIOUR", ToJson(trace)>>)
StopAtDepth == Len(trace) <= Depth
====
