---- MODULE MC_Verify ----
(* prints the mutation matrix of Verify.tla as JSON lines and checks the matrix-level statements *)
EXTENDS Verify, Json
Eq4   == [k \in 0..3 |-> 1]
Uneq4 == (0 :> 3) @@ (1 :> 1) @@ (2 :> 2) @@ (3 :> 1)
Zero4 == (0 :> 2) @@ (1 :> 2) @@ (2 :> 2) @@ (3 :> 0)
Eq7   == [k \in 0..6 |-> 1]
ASSUME \A c \in Cases : PrintT(<<"CASE", ToJson(c)>>)
ASSUME PrintT(<<"NCASES", Cardinality(Cases), "accepted", Cardinality({c \in Cases : Verdict(c)})>>)
ASSUME MatrixNotVacuous
ASSUME BelowQuorumRejected /\ RepeatRejected /\ OutsiderRejected /\ AnyAlterationRejected
====
