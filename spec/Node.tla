-------------------------------- MODULE Node --------------------------------
(***************************************************************************)
(* node/src/node.rs: the composition Mempool || Consensus over one store   *)
(* per node, at the level needed for the end-to-end properties:            *)
(*   client tx -> BatchMaker (seal) -> reliable broadcast -> peers store   *)
(*   and ACK -> QuorumWaiter (own stake + acks >= quorum) -> Processor     *)
(*   (store, digest to consensus) -> proposer buffer -> block payload ->   *)
(*   other nodes vote only if every batch of the payload is in their own   *)
(*   store, otherwise they ask the proposer (then any peer) for the batch  *)
(*   and resume -> commit at every node.                                   *)
(* Consensus itself is abstracted to a sequence of rounds with rotating    *)
(* leaders in a fault-free period (its safety and liveness are the subject *)
(* of HotStuff.tla); a block is committed at a node when a quorum voted    *)
(* for it and the node has processed it.                                   *)
(***************************************************************************)
EXTENDS Integers, Sequences, FiniteSets, TLC

CONSTANTS N, Stake, Txs, MaxRound,
          Weak   \* {} = the code; attack models: "no_quorum_wait", "vote_blind", "no_announce", "no_batch_sync"

Node == 0..(N - 1)
RECURSIVE Sum(_)
Sum(S) == IF S = {} THEN 0 ELSE LET x == CHOOSE y \in S : TRUE IN Stake[x] + Sum(S \ {x})
Quorum == (2 * Sum(Node)) \div 3 + 1

VARIABLES pendingTx,  \* transactions not yet submitted
          open,       \* [Node -> set of txs in the current batch]
          batch,      \* sealed batches: [id -> [creator, txs]] (id = creator * 100 + seq)
          nsealed,    \* [Node -> number of batches sealed]
          wire,       \* batch broadcasts in flight: set of <<batch id, destination>>
          lost,       \* broadcasts that never arrive: set of <<batch id, destination>>
          acks,       \* [batch id -> set of nodes whose ACK reached the creator]
          store,      \* [Node -> set of batch ids in the node's store]
          buffer,     \* [Node -> set of batch ids the proposer may include]
          round,      \* current round of the (abstracted) consensus: number of payload-carrying blocks proposed so far + 1
          off,        \* leaders whose buffer was empty pass their turn: the leader of `round` is (round + off) % N
          blocks,     \* [round -> [ld, payload (set of batch ids)]] for proposed rounds
          voted,      \* [round -> set of nodes that voted]
          waiting,    \* [Node -> set of rounds whose block waits for missing batches]
          requested,  \* batch requests in flight: set of <<requester, batch id, asked node>>
          committed,  \* [Node -> sequence of rounds committed]
          released    \* batches handed on by their creator's QuorumWaiter, with the acknowledgements it had then
vars == <<pendingTx, open, batch, nsealed, wire, lost, acks, store, buffer, round, off, blocks, voted, waiting, requested, committed, released>>

Init ==
  /\ pendingTx = Txs /\ open = [n \in Node |-> {}] /\ batch = <<>> /\ nsealed = [n \in Node |-> 0]
  /\ wire = {} /\ lost = {} /\ acks = <<>> /\ store = [n \in Node |-> {}] /\ buffer = [n \in Node |-> {}]
  /\ round = 1 /\ off = 0 /\ blocks = <<>> /\ voted = <<>> /\ waiting = [n \in Node |-> {}] /\ requested = {}
  /\ committed = [n \in Node |-> <<>>] /\ released = {}

Ld == (round + off) % N          \* whose turn it is
Ext(f, k, v) == [x \in DOMAIN f \cup {k} |-> IF x = k THEN v ELSE f[x]]

\* ---- mempool ------------------------------------------------------------------------------------------
Submit(n, tx) ==
  /\ tx \in pendingTx /\ pendingTx' = pendingTx \ {tx} /\ open' = [open EXCEPT ![n] = @ \cup {tx}]
  /\ UNCHANGED <<batch, nsealed, wire, lost, acks, store, buffer, round, off, blocks, voted, waiting, requested, committed, released>>
\* BatchMaker::seal: broadcast to every other mempool; one broadcast per run of this model may be lost for ever
Seal(n, dropTo) ==
  /\ open[n] # {}
  /\ LET id == n * 100 + nsealed[n] + 1 IN
       /\ batch' = Ext(batch, id, [creator |-> n, txs |-> open[n]])
       /\ acks' = Ext(acks, id, {})
       /\ wire' = wire \cup {<<id, m>> : m \in Node \ ({n} \cup dropTo)}
       /\ lost' = lost \cup {<<id, m>> : m \in dropTo}
       /\ IF "no_quorum_wait" \in Weak
          THEN store' = [store EXCEPT ![n] = @ \cup {id}] /\ buffer' = [buffer EXCEPT ![n] = @ \cup {id}]
          ELSE UNCHANGED <<store, buffer>>
  /\ dropTo \subseteq Node \ {n} /\ Cardinality(dropTo) <= 1 /\ Cardinality(lost) + Cardinality(dropTo) <= 1
  /\ open' = [open EXCEPT ![n] = {}] /\ nsealed' = [nsealed EXCEPT ![n] = @ + 1]
  /\ UNCHANGED <<pendingTx, round, off, blocks, voted, waiting, requested, committed, released>>
\* a peer receives the batch: ACK, Processor stores it and announces the digest to its consensus
Receive(id, m) ==
  /\ <<id, m>> \in wire /\ wire' = wire \ {<<id, m>>}
  /\ acks' = [acks EXCEPT ![id] = @ \cup {m}]
  /\ store' = [store EXCEPT ![m] = @ \cup {id}]
  /\ buffer' = [buffer EXCEPT ![m] = IF "no_announce" \in Weak THEN @ ELSE @ \cup {id}]
  /\ UNCHANGED <<pendingTx, open, batch, nsealed, lost, round, off, blocks, voted, waiting, requested, committed, released>>
\* QuorumWaiter + Processor on the creator's side
Release(id) ==
  LET n == batch[id].creator IN
  /\ id \notin store[n]
  /\ Stake[n] + Sum(acks[id]) >= Quorum
  /\ store' = [store EXCEPT ![n] = @ \cup {id}]
  /\ buffer' = [buffer EXCEPT ![n] = IF "no_announce" \in Weak THEN @ ELSE @ \cup {id}]
  /\ released' = released \cup {[id |-> id, acks |-> acks[id]]}
  /\ UNCHANGED <<pendingTx, open, batch, nsealed, wire, lost, acks, round, off, blocks, voted, waiting, requested, committed>>

\* ---- consensus (abstracted) -----------------------------------------------------------------------------
Propose ==
  /\ round <= MaxRound /\ round \notin DOMAIN blocks /\ buffer[Ld] # {}
  /\ blocks' = Ext(blocks, round, [ld |-> Ld, payload |-> buffer[Ld]]) /\ voted' = Ext(voted, round, {Ld})
  /\ buffer' = [buffer EXCEPT ![Ld] = {}]
  /\ UNCHANGED <<pendingTx, open, batch, nsealed, wire, lost, acks, store, round, off, waiting, requested, committed, released>>
\* a leader with nothing to propose passes (empty blocks are abstracted away)
Pass ==
  /\ round <= MaxRound /\ round \notin DOMAIN blocks /\ buffer[Ld] = {}
  /\ off' = (off + 1) % N
  /\ UNCHANGED <<pendingTx, open, batch, nsealed, wire, lost, acks, store, buffer, round, blocks, voted, waiting, requested, committed, released>>
\* handle_proposal at n: vote if every batch is stored locally, otherwise wait and ask the proposer
Handle(n, r) ==
  /\ r \in DOMAIN blocks /\ n \notin voted[r] /\ r \notin waiting[n] /\ n # blocks[r].ld
  /\ IF blocks[r].payload \subseteq store[n] \/ "vote_blind" \in Weak
     THEN voted' = [voted EXCEPT ![r] = @ \cup {n}] /\ UNCHANGED <<waiting, requested, released>>
     ELSE /\ waiting' = [waiting EXCEPT ![n] = @ \cup {r}]
          /\ requested' = requested \cup {<<n, b, blocks[r].ld>> : b \in blocks[r].payload \ store[n]}
          /\ UNCHANGED voted
  /\ UNCHANGED <<pendingTx, open, batch, nsealed, wire, lost, acks, store, buffer, round, off, blocks, committed, released>>
\* mempool Helper: answer with the batch if it is in the store (a lost request is retried with another peer)
Reply(n, b, from) ==
  /\ <<n, b, from>> \in requested /\ "no_batch_sync" \notin Weak
  /\ requested' = requested \ {<<n, b, from>>}
  /\ IF b \in store[from]
     THEN store' = [store EXCEPT ![n] = @ \cup {b}] /\ buffer' = [buffer EXCEPT ![n] = @ \cup {b}]
     ELSE UNCHANGED <<store, buffer>>
  /\ UNCHANGED <<pendingTx, open, batch, nsealed, wire, lost, acks, round, off, blocks, voted, waiting, committed, released>>
Retry(n, b) ==
  /\ b \notin store[n] /\ \E r \in waiting[n] : b \in blocks[r].payload
  /\ ~\E x \in requested : x[1] = n /\ x[2] = b
  /\ \E m \in Node \ {n} : b \in store[m] /\ requested' = requested \cup {<<n, b, m>>}
  /\ UNCHANGED <<pendingTx, open, batch, nsealed, wire, lost, acks, store, buffer, round, off, blocks, voted, waiting, committed, released>>
\* payload waiter: all batches arrived -> the block is processed and voted
Resume(n, r) ==
  /\ r \in waiting[n] /\ blocks[r].payload \subseteq store[n]
  /\ waiting' = [waiting EXCEPT ![n] = @ \ {r}] /\ voted' = [voted EXCEPT ![r] = @ \cup {n}]
  /\ UNCHANGED <<pendingTx, open, batch, nsealed, wire, lost, acks, store, buffer, round, off, blocks, requested, committed, released>>
\* a quorum voted: the round is over; every node that voted commits it (the others when they resume)
NextRound ==
  /\ round \in DOMAIN blocks /\ Sum(voted[round]) >= Quorum
  /\ round' = round + 1
  /\ UNCHANGED <<pendingTx, open, batch, nsealed, wire, lost, acks, store, buffer, off, blocks, voted, waiting, requested, committed, released>>
CommitAt(n, r) ==
  /\ r \in DOMAIN blocks /\ r < round /\ n \in voted[r]
  /\ r = Len(committed[n]) + 1
  /\ committed' = [committed EXCEPT ![n] = Append(@, r)]
  \* cleanup_proposer: committed digests leave the buffer
  /\ buffer' = [buffer EXCEPT ![n] = @ \ blocks[r].payload]
  /\ UNCHANGED <<pendingTx, open, batch, nsealed, wire, lost, acks, store, round, off, blocks, voted, waiting, requested, released>>

Next ==
  \/ \E n \in Node, tx \in Txs : Submit(n, tx)
  \/ \E n \in Node, d \in SUBSET Node : Seal(n, d)
  \/ \E id \in DOMAIN batch, m \in Node : Receive(id, m)
  \/ \E id \in DOMAIN batch : Release(id)
  \/ Propose \/ Pass \/ NextRound
  \/ \E n \in Node, r \in 1..MaxRound : Handle(n, r) \/ Resume(n, r) \/ CommitAt(n, r)
  \/ \E x \in requested : Reply(x[1], x[2], x[3])
  \/ \E n \in Node, b \in DOMAIN batch : Retry(n, b)
Spec == Init /\ [][Next]_vars
\* fairness of every component that the code runs as its own task (not of Pass: an idle leader may pass for ever)
FairSpec == Spec
  /\ WF_vars(\E n \in Node, tx \in Txs : Submit(n, tx)) /\ WF_vars(\E n \in Node : Seal(n, {}))
  /\ WF_vars(\E id \in DOMAIN batch, m \in Node : Receive(id, m)) /\ WF_vars(\E id \in DOMAIN batch : Release(id))
  /\ WF_vars(Propose) /\ WF_vars(Pass) /\ WF_vars(NextRound)
  /\ WF_vars(\E n \in Node, r \in 1..MaxRound : Handle(n, r)) /\ WF_vars(\E n \in Node, r \in 1..MaxRound : Resume(n, r))
  /\ WF_vars(\E n \in Node, r \in 1..MaxRound : CommitAt(n, r))
  /\ WF_vars(\E x \in requested : Reply(x[1], x[2], x[3])) /\ WF_vars(\E n \in Node, b \in DOMAIN batch : Retry(n, b))

-----------------------------------------------------------------------------
\* C12: the creator's QuorumWaiter hands a batch on only with a quorum of acknowledgements (counting itself).  Note what TLC
\* shows when one asks for more ("whatever a node proposes of its own batches has a quorum of ACKs"): a peer may propose the
\* batch first, the creator then fetches ITS OWN batch through the sync path and may propose it again without having reached
\* its quorum -- by then the batch is stored by the peer, the creator and every voter, so availability is not at risk.
ReleaseHasQuorum == \A x \in released : Stake[batch[x.id].creator] + Sum(x.acks) >= Quorum
OwnProposedIsAvailable ==
  \A r \in DOMAIN blocks : \A b \in blocks[r].payload :
     batch[b].creator = blocks[r].ld => (Stake[blocks[r].ld] + Sum(acks[b]) >= Quorum \/ \E q \in 1..(r - 1) : b \in blocks[q].payload)
\* C08: whoever voted for a block (other than its proposer) stores all its batches; whoever committed it too
VoteHasPayload == \A r \in DOMAIN blocks : \A n \in voted[r] : n = blocks[r].ld \/ blocks[r].payload \subseteq store[n]
CommitHasPayload == \A n \in Node : \A i \in 1..Len(committed[n]) : blocks[committed[n][i]].payload \subseteq store[n]
\* C13 (liveness, fault-free period, rounds not exhausted): every submitted transaction ends up in a committed block at every
\* node, with the batch readable there; a node that lacks a batch obtains it and resumes instead of stalling
TxCommittedAt(tx, n) == \E i \in 1..Len(committed[n]) : \E b \in blocks[committed[n][i]].payload : tx \in batch[b].txs /\ b \in store[n]
EndToEnd == <>(\/ \A tx \in Txs, n \in Node : TxCommittedAt(tx, n)
               \/ round > MaxRound)
NoStall == \A n \in Node : [](\A r \in 1..MaxRound : (r \in waiting[n]) => <>(r \notin waiting[n] \/ round > MaxRound))
\* when the explored rounds are not exhausted nothing is left behind: used as an invariant at the end of the run
Done == round > MaxRound
EverythingCommittedWhenIdle ==
  (pendingTx = {} /\ \A n \in Node : open[n] = {} /\ wire = {} /\ ~ENABLED Next) => (Done \/ \A tx \in Txs, n \in Node : TxCommittedAt(tx, n))
=============================================================================
