------------------------------ MODULE Proposer ------------------------------
(***************************************************************************)
(* consensus/src/proposer.rs: the task between the mempool, the core and   *)
(* the network.                                                            *)
(*                                                                         *)
(*   rx_mempool : digests of batches ready to be proposed (own batches     *)
(*                after their quorum of ACKs, other nodes' batches on      *)
(*                receipt) -> `buffer` (a set)                             *)
(*   rx_message : Make(round, qc, tc) -> make_block: the block takes the   *)
(*                WHOLE buffer as payload, is broadcast with the reliable  *)
(*                sender, looped back to the core, and then the task waits *)
(*                -- processing nothing else -- until authorities holding  *)
(*                a quorum of the stake, its own included, acknowledged    *)
(*                the frame;  Cleanup(digests) -> removed from the buffer. *)
(*                                                                         *)
(* Both channels are FIFO; while the task waits for acknowledgements       *)
(* everything queues up.  tokio::select! picks either ready channel, so    *)
(* the order between a queued digest and a queued command is free.         *)
(***************************************************************************)
EXTENDS Integers, Sequences, FiniteSets, TLC

CONSTANTS Others, Stake, Digests, NMakes,
          Weak     \* attack models: "exclude_self" (own stake not counted), "keep_buffer" (payload not drained), "no_wait"

Me == 0
D400 == 1..400        \* a large digest universe for backlog schedules (configuration files cannot write a range)
RECURSIVE Sum(_)
Sum(S) == IF S = {} THEN 0 ELSE LET x == CHOOSE y \in S : TRUE IN Stake[x] + Sum(S \ {x})
Quorum == (2 * Sum(Others \cup {Me})) \div 3 + 1

VARIABLES buffer,     \* digests waiting to be proposed
          dq, cq,     \* the two input channels: digests; commands ([k |-> "make"] / [k |-> "cleanup", ds |-> set])
          made,       \* sequence of payloads of the blocks created so far
          waiting,    \* TRUE while make_block waits for acknowledgements of block Len(made)
          acks        \* [block number -> peers whose receiver acknowledged the frame]
vars == <<buffer, dq, cq, made, waiting, acks>>

Init == buffer = {} /\ dq = <<>> /\ cq = <<>> /\ made = <<>> /\ waiting = FALSE /\ acks = [i \in 1..NMakes |-> {}]

\* environment
SendDigest(d) == dq' = Append(dq, d) /\ UNCHANGED <<buffer, cq, made, waiting, acks>>
SendMake == /\ Len(SelectSeq(cq, LAMBDA c : c.k = "make")) + Len(made) < NMakes
            /\ cq' = Append(cq, [k |-> "make"]) /\ UNCHANGED <<buffer, dq, made, waiting, acks>>
SendCleanup(ds) == cq' = Append(cq, [k |-> "cleanup", ds |-> ds]) /\ UNCHANGED <<buffer, dq, made, waiting, acks>>
Enough(S) == IF "exclude_self" \in Weak THEN Sum(S) >= Quorum ELSE Stake[Me] + Sum(S) >= Quorum
Unacked(p) == {i \in 1..Len(made) : p \notin acks[i]}
PeerAck(p) ==      \* peer p's receiver acknowledges the oldest frame it has not acknowledged yet (ACKs are paired FIFO per connection)
  /\ Unacked(p) # {}
  /\ LET i == CHOOSE x \in Unacked(p) : \A y \in Unacked(p) : x <= y IN
     /\ acks' = [acks EXCEPT ![i] = @ \cup {p}]
     /\ waiting' = IF waiting /\ i = Len(made) /\ Enough(acks'[i]) THEN FALSE ELSE waiting
  /\ UNCHANGED <<buffer, dq, cq, made>>
\* the task
TakeDigest == /\ ~waiting /\ dq # <<>>
              /\ buffer' = buffer \cup {Head(dq)} /\ dq' = Tail(dq) /\ UNCHANGED <<cq, made, waiting, acks>>
TakeCommand ==
  /\ ~waiting /\ cq # <<>>
  /\ cq' = Tail(cq)
  /\ LET c == Head(cq) IN
     IF c.k = "make"
     THEN /\ made' = Append(made, buffer)
          /\ buffer' = IF "keep_buffer" \in Weak THEN buffer ELSE {}
          /\ waiting' = ~("no_wait" \in Weak \/ Enough({}))
          /\ UNCHANGED <<dq, acks>>
     ELSE /\ buffer' = buffer \ c.ds /\ UNCHANGED <<dq, made, waiting, acks>>
Next == \/ \E d \in Digests : SendDigest(d)
        \/ SendMake
        \/ \E ds \in SUBSET Digests : ds # {} /\ SendCleanup(ds)
        \/ \E p \in Others : PeerAck(p)
        \/ TakeDigest \/ TakeCommand
Spec == Init /\ [][Next]_vars
FairSpec == Spec /\ WF_vars(TakeDigest) /\ WF_vars(TakeCommand)

-----------------------------------------------------------------------------
\* C13 (digest flow): a digest is proposed at most once per hand-over -- two blocks of this node never share a digest unless it was handed over again
\* (stated for schedules in which every digest is handed over once: MC constraint OncePerDigest)
NoDoubleInclusion == \A i, j \in 1..Len(made) : i # j => made[i] \cap made[j] = {}
\* C06 (control system): the proposer is idle again exactly when a quorum (own stake included) acknowledged its last block
WaitsForQuorum == waiting => ~(Stake[Me] + Sum(acks[Len(made)]) >= Quorum)
\* payloads are drained: what went into a block is not in the buffer any more
Drained == Len(made) = 0 \/ waiting = FALSE \/ made[Len(made)] \cap buffer = {}
=============================================================================
