------------------------------- MODULE QWNet -------------------------------
(***************************************************************************)
(* C12 with several batches in flight: the composition                     *)
(*   BatchMaker.seal  ->  ReliableSender (one Connection per peer)         *)
(*                    ->  peer's ACK  ->  handle  ->  QuorumWaiter         *)
(* on failure-free connections (connection failures are C14's business).   *)
(*                                                                         *)
(* mempool/src/batch_maker.rs seal(): the batch is handed to the reliable  *)
(* sender for every other authority (one handle each) and then, with the   *)
(* handles, to the quorum waiter.                                          *)
(* network/src/reliable_sender.rs keep_alive(): frames are written in      *)
(* hand-over order; `pending_replies` is a FIFO of (message, handle); an   *)
(* ACK carries no identifier and resolves the handle at the front.         *)
(* mempool/src/quorum_waiter.rs: one batch at a time; adds the stake of    *)
(* every handle that completes to its own; forwards the batch at the       *)
(* quorum and drops the remaining handles of that batch (cancelled).       *)
(*                                                                         *)
(* Ground truth is kept beside the implementation state: `acked[b]` is the *)
(* set of peers that really answered the frame carrying batch b.           *)
(***************************************************************************)
EXTENDS Integers, Sequences, FiniteSets, TLC

CONSTANTS Others, Stake, NBatches,
          Down,     \* peers that refuse connections: what is sent to them waits in the sender's buffer, nothing is written, nothing acknowledged
          Weak      \* attack models: "drop_cancelled_pending" (cancelled entries are removed from pending_replies),
                    \*                "bounded_buffer" (the buffer for an unreachable peer keeps 2 messages; a dropped handle counts as completed)

Me == 0
RECURSIVE Sum(_)
Sum(S) == IF S = {} THEN 0 ELSE LET x == CHOOSE y \in S : TRUE IN Stake[x] + Sum(S \ {x})
Quorum == (2 * Sum(Others \cup {Me})) \div 3 + 1

VARIABLES sealed,     \* number of batches sealed (batch ids 1..sealed)
          wire,       \* [peer -> sequence of batch ids written to the peer and not yet answered by it]
          pend,       \* [peer -> the sender's pending_replies: sequence of batch ids]
          open,       \* set of <<batch, peer>>: handles still held by the quorum waiter
          done,       \* set of <<batch, peer>>: handles that resolved (an ACK was paired with them)
          acked,      \* [batch -> peers that answered the frame carrying that batch]   (ground truth)
          head, counted, released
vars == <<sealed, wire, pend, open, done, acked, head, counted, released>>

Init == /\ sealed = 0 /\ wire = [p \in Others |-> <<>>] /\ pend = [p \in Others |-> <<>>]
        /\ open = {} /\ done = {} /\ acked = [b \in 1..NBatches |-> {}]
        /\ head = 0 /\ counted = {} /\ released = <<>>

Keep(q, S) == SelectSeq(q, LAMBDA x : x \in S)
\* seal: broadcast + hand-over to the quorum waiter
Seal ==
  /\ sealed < NBatches
  /\ LET b == sealed + 1 IN
     /\ sealed' = b
     /\ wire' = [p \in Others |-> IF p \in Down THEN wire[p] ELSE Append(wire[p], b)]
     /\ pend' = [p \in Others |->
                   IF p \in Down THEN pend[p] ELSE
                   LET q == IF "drop_cancelled_pending" \in Weak THEN Keep(pend[p], {x \in 1..NBatches : <<x, p>> \in open}) ELSE pend[p]
                   IN Append(q, b)]
     /\ open' = open \cup {<<b, p>> : p \in Others}
     \* attack model: beyond 2 buffered messages for an unreachable peer the newest is dropped together with its handle, and the
     \* quorum waiter takes a dropped handle for a completed one
     /\ done' = IF "bounded_buffer" \in Weak
                THEN done \cup {<<b, p>> : p \in {x \in Down : Cardinality({h \in open : h[2] = x}) >= 2}}
                ELSE done
  /\ UNCHANGED <<acked, head, counted, released>>
\* peer p answers the oldest frame it has not answered yet; the sender pairs the ACK with the front of pending_replies
Ack(p) ==
  /\ wire[p] # <<>>
  /\ LET b == Head(wire[p]) IN
     /\ wire' = [wire EXCEPT ![p] = Tail(@)]
     /\ acked' = [acked EXCEPT ![b] = @ \cup {p}]
     /\ IF pend[p] = <<>> THEN UNCHANGED <<pend, done>>       \* UnexpectedAck: the connection is torn down (not modelled further)
        ELSE LET h == Head(pend[p]) IN
             /\ pend' = [pend EXCEPT ![p] = Tail(@)]
             /\ done' = IF <<h, p>> \in open THEN done \cup {<<h, p>>} ELSE done
  /\ UNCHANGED <<sealed, open, head, counted, released>>
\* the quorum waiter
NextUnreleased == Len(released) + 1
Take == /\ head = 0 /\ NextUnreleased <= sealed
        /\ head' = NextUnreleased /\ counted' = {} /\ UNCHANGED <<sealed, wire, pend, open, done, acked, released>>
Count ==
  /\ head # 0
  /\ \E p \in {x \in Others : <<head, x>> \in done} \ counted :
       LET c == counted \cup {p} IN
       IF Stake[Me] + Sum(c) >= Quorum
       THEN /\ released' = Append(released, head) /\ head' = 0 /\ counted' = {}
            /\ open' = {h \in open : h[1] # head}              \* the remaining handles of this batch are dropped
       ELSE counted' = c /\ UNCHANGED <<released, head, open>>
  /\ UNCHANGED <<sealed, wire, pend, done, acked>>
Next == Seal \/ (\E p \in Others : Ack(p)) \/ Take \/ Count
Spec == Init /\ [][Next]_vars
FairSpec == Spec /\ WF_vars(Take) /\ WF_vars(Count)

-----------------------------------------------------------------------------
\* C12: a released batch was really acknowledged by a quorum of the stake, counting the node itself
ReleasedWithQuorumOfAcks == \A i \in 1..Len(released) : Stake[Me] + Sum(acked[released[i]]) >= Quorum
ReleasedInOrder == \A i \in 1..Len(released) : released[i] = i
\* the pairing the reliable sender relies on: what the sender waits for is what the peer has not answered
PairingAligned == \A p \in Others : pend[p] = wire[p]
\* nothing is released while the reachable peers together with the node hold less than a quorum
UnreachableQuorumBlocks == (Stake[Me] + Sum(Others \ Down) < Quorum) => released = <<>>
Prompt == \A b \in 1..NBatches : []((b <= sealed /\ \A c \in 1..b : Stake[Me] + Sum(acked[c]) >= Quorum) => <>(Len(released) >= b))
=============================================================================
