----------------------------- MODULE QuorumWaiter -----------------------------
(***************************************************************************)
(* mempool/src/quorum_waiter.rs: batches arrive from the BatchMaker with   *)
(* one acknowledgement handle per other authority.  The waiter takes one   *)
(* batch at a time, adds the stake of every authority whose handle         *)
(* completes to its own stake, and forwards the batch to the Processor     *)
(* (store + digest to consensus) when the total reaches the quorum.  Acks  *)
(* for later batches may complete early; they are counted when their batch *)
(* is taken.                                                               *)
(***************************************************************************)
EXTENDS Integers, Sequences, FiniteSets, TLC

CONSTANTS Others,     \* the other authorities
          Stake,      \* [Others \cup {0} -> Nat]; 0 is this node
          NBatches,
          Delta       \* 0 = the code; a negative value models a too-low threshold (attack model)

Me == 0
RECURSIVE Sum(_)
Sum(S) == IF S = {} THEN 0 ELSE LET x == CHOOSE y \in S : TRUE IN Stake[x] + Sum(S \ {x})
Quorum == (2 * Sum(Others \cup {Me})) \div 3 + 1 + Delta

VARIABLES submitted,  \* number of batches handed to the waiter
          acked,      \* [batch -> set of authorities whose handle completed]
          counted,    \* authorities already counted for the batch being waited for
          head,       \* batch being waited for (0 = none)
          released    \* sequence of batches forwarded
vars == <<submitted, acked, counted, head, released>>

Init == submitted = 0 /\ acked = [b \in 1..NBatches |-> {}] /\ counted = {} /\ head = 0 /\ released = <<>>

Submit == submitted < NBatches /\ submitted' = submitted + 1 /\ UNCHANGED <<acked, counted, head, released>>
Ack(b, p) == b <= submitted /\ p \notin acked[b] /\ acked' = [acked EXCEPT ![b] = @ \cup {p}] /\ UNCHANGED <<submitted, counted, head, released>>
NextUnreleased == Len(released) + 1
\* the waiter task
Take ==
  /\ head = 0 /\ NextUnreleased <= submitted
  /\ head' = NextUnreleased /\ counted' = {} /\ UNCHANGED <<submitted, acked, released>>
Count ==
  /\ head # 0
  /\ \E p \in acked[head] \ counted :
       LET c == counted \cup {p} IN
       IF Stake[Me] + Sum(c) >= Quorum
       THEN released' = Append(released, head) /\ head' = 0 /\ counted' = {}
       ELSE counted' = c /\ UNCHANGED <<released, head>>
  /\ UNCHANGED <<submitted, acked>>
Next == Submit \/ (\E b \in 1..NBatches, p \in Others : Ack(b, p)) \/ Take \/ Count
Spec == Init /\ [][Next]_vars
FairSpec == Spec /\ WF_vars(Take) /\ WF_vars(Count)

-----------------------------------------------------------------------------
\* C12: a batch is forwarded only when own stake + acknowledged stake reaches the quorum, in submission order
ReleasedHaveQuorum == \A i \in 1..Len(released) : Stake[Me] + Sum(acked[released[i]]) >= (2 * Sum(Others \cup {Me})) \div 3 + 1
ReleasedInOrder == \A i \in 1..Len(released) : released[i] = i
\* never held back: once the head batch has a quorum of acks and the waiter has run, it is released
Prompt == \A b \in 1..NBatches : [](b <= submitted /\ Stake[Me] + Sum(acked[b]) >= Quorum /\ (\A c \in 1..(b - 1) : Stake[Me] + Sum(acked[c]) >= Quorum)
                                     => <>(Len(released) >= b))
=============================================================================
