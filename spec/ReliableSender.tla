--------------------------- MODULE ReliableSender ---------------------------
(***************************************************************************)
(* network/src/reliable_sender.rs: one Connection task per peer.           *)
(*   send()        puts (data, cancel handle) on the task's channel (inq)  *)
(*   run()         connect; on success keep_alive(); on failure wait       *)
(*                 (back-off) while draining inq into the buffer and       *)
(*                 dropping cancelled messages                             *)
(*   keep_alive()  write everything in `buffer` (skipping cancelled),      *)
(*                 remember written messages in `pending`; then either     *)
(*                 take a new message from inq or read one ACK, which      *)
(*                 resolves the OLDEST pending message; on any error put   *)
(*                 pending back in front of the buffer and reconnect       *)
(* The peer (network/src/receiver.rs) reads frames in order and replies to *)
(* each in order.  Messages are identified by their hand-over index.       *)
(***************************************************************************)
EXTENDS Integers, Sequences, FiniteSets, TLC

CONSTANTS M,          \* messages handed over
          MaxBreaks,  \* connection failures injected
          MaxRefuse,  \* refused connection attempts
          Weak        \* {} = the code; attack models: "lifo_acks", "requeue_reversed", "resend_cancelled", "resolve_on_write"

Ids == 1..M
VARIABLES next, inq, buffer, pending, conn, cid, wireOut, peerGot, wireIn,
          handle, resolvedWith, peerLog, cancelledAt, breaks, refuses
vars == <<next, inq, buffer, pending, conn, cid, wireOut, peerGot, wireIn,
          handle, resolvedWith, peerLog, cancelledAt, breaks, refuses>>

Init ==
  /\ next = 1 /\ inq = <<>> /\ buffer = <<>> /\ pending = <<>> /\ conn = "down" /\ cid = 0
  /\ wireOut = <<>> /\ peerGot = <<>> /\ wireIn = <<>>
  /\ handle = [i \in Ids |-> "none"] /\ resolvedWith = [i \in Ids |-> 0]
  /\ peerLog = <<>> /\ cancelledAt = [i \in Ids |-> -1] /\ breaks = 0 /\ refuses = 0

Closed(i) == handle[i] = "cancelled"
Keep(s) == SelectSeq(s, LAMBDA x : ~Closed(x))
Reverse(q) == [i \in 1..Len(q) |-> q[Len(q) + 1 - i]]

\* ---- the caller ----------------------------------------------------------------------------------------
Send ==
  /\ next <= M
  /\ inq' = Append(inq, next) /\ handle' = [handle EXCEPT ![next] = "open"] /\ next' = next + 1
  /\ UNCHANGED <<buffer, pending, conn, cid, wireOut, peerGot, wireIn, resolvedWith, peerLog, cancelledAt, breaks, refuses>>
Cancel(i) ==
  /\ handle[i] = "open"
  /\ handle' = [handle EXCEPT ![i] = "cancelled"] /\ cancelledAt' = [cancelledAt EXCEPT ![i] = cid]
  /\ UNCHANGED <<next, inq, buffer, pending, conn, cid, wireOut, peerGot, wireIn, resolvedWith, peerLog, breaks, refuses>>

\* ---- the connection task --------------------------------------------------------------------------------
ConnectOk ==
  /\ conn = "down"
  /\ conn' = "up" /\ cid' = cid + 1 /\ wireOut' = <<>> /\ peerGot' = <<>> /\ wireIn' = <<>> /\ pending' = <<>>
  /\ UNCHANGED <<next, inq, buffer, handle, resolvedWith, peerLog, cancelledAt, breaks, refuses>>
ConnectFail ==
  /\ conn = "down" /\ refuses < MaxRefuse
  /\ conn' = "backoff" /\ refuses' = refuses + 1
  /\ UNCHANGED <<next, inq, buffer, pending, cid, wireOut, peerGot, wireIn, handle, resolvedWith, peerLog, cancelledAt, breaks>>
BackoffDrain ==       \* while waiting: drain the channel into the buffer, dropping cancelled messages
  /\ conn = "backoff" /\ inq # <<>>
  /\ buffer' = Keep(Append(buffer, Head(inq))) /\ inq' = Tail(inq)
  /\ UNCHANGED <<next, pending, conn, cid, wireOut, peerGot, wireIn, handle, resolvedWith, peerLog, cancelledAt, breaks, refuses>>
BackoffExpire ==
  /\ conn = "backoff" /\ conn' = "down"
  /\ UNCHANGED <<next, inq, buffer, pending, cid, wireOut, peerGot, wireIn, handle, resolvedWith, peerLog, cancelledAt, breaks, refuses>>
WriteNext ==
  /\ conn = "up" /\ buffer # <<>>
  /\ LET m == Head(buffer) IN
       IF Closed(m) /\ "resend_cancelled" \notin Weak
       THEN /\ buffer' = Tail(buffer) /\ UNCHANGED <<pending, wireOut, handle, resolvedWith>>
       ELSE /\ buffer' = Tail(buffer) /\ pending' = Append(pending, m) /\ wireOut' = Append(wireOut, m)
            /\ IF "resolve_on_write" \in Weak /\ handle[m] = "open"
               THEN handle' = [handle EXCEPT ![m] = "resolved"] /\ resolvedWith' = [resolvedWith EXCEPT ![m] = 0]
               ELSE UNCHANGED <<handle, resolvedWith>>
  /\ UNCHANGED <<next, inq, conn, cid, peerGot, wireIn, peerLog, cancelledAt, breaks, refuses>>
TakeInq ==
  /\ conn = "up" /\ buffer = <<>> /\ inq # <<>>
  /\ buffer' = <<Head(inq)>> /\ inq' = Tail(inq)
  /\ UNCHANGED <<next, pending, conn, cid, wireOut, peerGot, wireIn, handle, resolvedWith, peerLog, cancelledAt, breaks, refuses>>
ReadAck ==
  /\ conn = "up" /\ buffer = <<>> /\ wireIn # <<>> /\ pending # <<>>
  /\ LET p == IF "lifo_acks" \in Weak THEN pending[Len(pending)] ELSE Head(pending)
         a == Head(wireIn)
     IN /\ pending' = IF "lifo_acks" \in Weak THEN SubSeq(pending, 1, Len(pending) - 1) ELSE Tail(pending)
        /\ wireIn' = Tail(wireIn)
        /\ IF handle[p] = "open"
           THEN handle' = [handle EXCEPT ![p] = "resolved"] /\ resolvedWith' = [resolvedWith EXCEPT ![p] = a]
           ELSE UNCHANGED <<handle, resolvedWith>>
  /\ UNCHANGED <<next, inq, buffer, conn, cid, wireOut, peerGot, peerLog, cancelledAt, breaks, refuses>>

\* ---- the peer and the network -----------------------------------------------------------------------------
PeerRead ==
  /\ conn = "up" /\ wireOut # <<>>
  /\ peerGot' = Append(peerGot, Head(wireOut)) /\ peerLog' = Append(peerLog, [c |-> cid, id |-> Head(wireOut)])
  /\ wireOut' = Tail(wireOut)
  /\ UNCHANGED <<next, inq, buffer, pending, conn, cid, wireIn, handle, resolvedWith, cancelledAt, breaks, refuses>>
PeerReply ==
  /\ conn = "up" /\ peerGot # <<>>
  /\ wireIn' = Append(wireIn, Head(peerGot)) /\ peerGot' = Tail(peerGot)
  /\ UNCHANGED <<next, inq, buffer, pending, conn, cid, wireOut, handle, resolvedWith, peerLog, cancelledAt, breaks, refuses>>
\* the connection dies (write error, read error, peer restart): un-ACKed messages go back in front of the buffer
Break ==
  /\ conn = "up" /\ breaks < MaxBreaks
  /\ breaks' = breaks + 1 /\ conn' = "down"
  /\ buffer' = (IF "requeue_reversed" \in Weak THEN Reverse(pending) ELSE pending) \o buffer
  /\ pending' = <<>> /\ wireOut' = <<>> /\ peerGot' = <<>> /\ wireIn' = <<>>
  /\ UNCHANGED <<next, inq, cid, handle, resolvedWith, peerLog, cancelledAt, refuses>>

Internal == ConnectOk \/ BackoffDrain \/ BackoffExpire \/ WriteNext \/ TakeInq \/ ReadAck
External == Send \/ (\E i \in Ids : Cancel(i)) \/ ConnectFail \/ PeerRead \/ PeerReply \/ Break
Next == Internal \/ External
Spec == Init /\ [][Next]_vars
FairSpec == Spec /\ WF_vars(Internal) /\ WF_vars(PeerRead) /\ WF_vars(PeerReply)

-----------------------------------------------------------------------------
\* C14
Pairing == \A i \in Ids : handle[i] = "resolved" => resolvedWith[i] = i
RECURSIVE Firsts(_, _)
Firsts(s, seen) == IF s = <<>> THEN <<>>
                   ELSE IF Head(s).id \in seen THEN Firsts(Tail(s), seen)
                   ELSE <<Head(s).id>> \o Firsts(Tail(s), seen \cup {Head(s).id})
FirstOrder == LET f == Firsts(peerLog, {}) IN \A i, j \in 1..Len(f) : i < j => f[i] < f[j]
\* a message whose handle was dropped while connection c was current is never written on a later connection
NoResendAfterCancel == \A k \in 1..Len(peerLog) : LET e == peerLog[k] IN cancelledAt[e.id] = -1 \/ e.c <= cancelledAt[e.id]
\* a handle resolves only after the peer has read that message
ResolvedWasDelivered == \A i \in Ids : handle[i] = "resolved" => \E k \in 1..Len(peerLog) : peerLog[k].id = i
\* liveness: a kept handle is eventually resolved (connection failures and refusals are bounded)
Eventually == \A i \in Ids : [](handle[i] = "open" => <>(handle[i] # "open"))
=============================================================================
