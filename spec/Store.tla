-------------------------------- MODULE Store --------------------------------
(***************************************************************************)
(* store/src/lib.rs: cloneable handles put commands on one FIFO channel;   *)
(* a single task applies them one at a time to the database; a write wakes *)
(* (and clears) the obligations registered for its key; NotifyRead answers *)
(* at once if the key exists, otherwise registers an obligation.           *)
(***************************************************************************)
EXTENDS Integers, Sequences, FiniteSets, TLC

CONSTANTS Handles, Keys, Vals, MaxOps,
          LoseWake   \* FALSE = the code; TRUE models a store that forgets to wake waiters (attack model)

None == 0          \* Vals are positive integers
Pending == -1

VARIABLES cmdQ,   \* commands enqueued, not yet applied
          db,     \* [Keys -> Vals \cup {None}]
          obl,    \* [Keys -> Seq(op id)]
          resp,   \* [op id -> response]  (reads and notify-reads)
          log,    \* every command in enqueue order: [id, op, h, key, val]
          applied \* number of commands applied
vars == <<cmdQ, db, obl, resp, log, applied>>

Init ==
  /\ cmdQ = <<>> /\ db = [k \in Keys |-> None] /\ obl = [k \in Keys |-> <<>>]
  /\ resp = <<>> /\ log = <<>> /\ applied = 0

NextId == Len(log) + 1
Enq(c) == /\ Len(log) < MaxOps
          /\ cmdQ' = Append(cmdQ, c) /\ log' = Append(log, c)
          /\ UNCHANGED <<db, obl, applied>>

Write(h, k, v) == Enq([id |-> NextId, op |-> "write", h |-> h, key |-> k, val |-> v]) /\ UNCHANGED resp
Read(h, k)     == Enq([id |-> NextId, op |-> "read", h |-> h, key |-> k, val |-> None])
                  /\ resp' = Append(resp, Pending)
NotifyRead(h, k) == Enq([id |-> NextId, op |-> "notify", h |-> h, key |-> k, val |-> None])
                  /\ resp' = Append(resp, Pending)
\* resp is indexed by op id; writes get a placeholder so that ids line up
WriteR(h, k, v) == Enq([id |-> NextId, op |-> "write", h |-> h, key |-> k, val |-> v]) /\ resp' = Append(resp, -2)

RECURSIVE WakeAll(_, _, _)
WakeAll(r, ids, v) == IF ids = <<>> THEN r ELSE WakeAll([r EXCEPT ![Head(ids)] = v], Tail(ids), v)

\* the store task: apply the head command
Apply ==
  /\ cmdQ # <<>>
  /\ LET c == Head(cmdQ) IN
       /\ cmdQ' = Tail(cmdQ) /\ applied' = applied + 1 /\ UNCHANGED log
       /\ CASE c.op = "write" ->
                 /\ db' = [db EXCEPT ![c.key] = c.val]
                 /\ IF LoseWake THEN UNCHANGED <<obl, resp>>
                    ELSE /\ resp' = WakeAll(resp, obl[c.key], c.val)
                         /\ obl' = [obl EXCEPT ![c.key] = <<>>]
            [] c.op = "read" ->
                 /\ resp' = [resp EXCEPT ![c.id] = db[c.key]]
                 /\ UNCHANGED <<db, obl>>
            [] c.op = "notify" ->
                 /\ IF db[c.key] # None
                    THEN resp' = [resp EXCEPT ![c.id] = db[c.key]] /\ UNCHANGED obl
                    ELSE obl' = [obl EXCEPT ![c.key] = Append(@, c.id)] /\ UNCHANGED resp
                 /\ UNCHANGED db

\* all handles dropped, the task ended, the same path opened again: data stays, obligations are gone
Reopen ==
  /\ cmdQ = <<>> /\ \A k \in Keys : obl[k] = <<>>
  /\ UNCHANGED vars

Next ==
  \/ \E h \in Handles, k \in Keys, v \in Vals : WriteR(h, k, v)
  \/ \E h \in Handles, k \in Keys : Read(h, k) \/ NotifyRead(h, k)
  \/ Apply

Spec == Init /\ [][Next]_vars
FairSpec == Spec /\ WF_vars(Apply)

-----------------------------------------------------------------------------
\* C16 as invariants over the log of commands (enqueue order = issue order on the channel)
WritesBefore(i, k) == {j \in 1..(i - 1) : log[j].op = "write" /\ log[j].key = k}
LastWriteBefore(i, k) == IF WritesBefore(i, k) = {} THEN None
                         ELSE log[CHOOSE j \in WritesBefore(i, k) : \A x \in WritesBefore(i, k) : x <= j].val
FirstWriteAfter(i, k) == LET W == {j \in (i + 1)..Len(log) : log[j].op = "write" /\ log[j].key = k /\ j <= applied} IN
                         IF W = {} THEN Pending ELSE log[CHOOSE j \in W : \A x \in W : j <= x].val

\* a read that has been applied returned the latest write enqueued before it (or nothing)
ReadSeesLatest == \A i \in 1..Len(log) : (log[i].op = "read" /\ i <= applied) => resp[i] = LastWriteBefore(i, log[i].key)
\* per-key writes take effect in issue order: the database holds the last applied write
WritesInOrder == \A k \in Keys : db[k] = LastWriteBefore(applied + 1, k)
\* a notify-read that has been applied holds: the value present when it was applied, else the first later
\* applied write; it is pending only if no write to the key has been applied at all
NotifyNeverMisses == \A i \in 1..Len(log) : (log[i].op = "notify" /\ i <= applied) =>
     resp[i] = IF LastWriteBefore(i, log[i].key) # None THEN LastWriteBefore(i, log[i].key)
               ELSE FirstWriteAfter(i, log[i].key)
ObligationsOnlyForMissing == \A k \in Keys : obl[k] # <<>> => db[k] = None
\* liveness: every command is eventually applied
AllApplied == <>[](applied = Len(log))
=============================================================================
