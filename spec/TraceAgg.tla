------------------------------ MODULE TraceAgg ------------------------------
(* Trace validation for the Aggregator: the calls made on the real consensus::Aggregator (with real, signed
   votes and timeouts) and their real results are replayed through Aggregator.tla.  C19 says exactly when a
   certificate must come out and what it contains, so a result that differs from the specification's is a
   violation: certificate present/absent, block hash and round, the SET of signers (order is not prescribed),
   and whether the certificate verifies under an independently built committee. *)
EXTENDS Aggregator, Json, IOUtils
Rec == ndJsonDeserialize(IOEnv.TRACE)
TrAuthors == 0..(Len(Rec[1].stakes) - 1)
TrStake   == [a \in TrAuthors |-> Rec[1].stakes[a + 1]]

VARIABLES l, viol, nsteps
tvars == <<vars, l, viol, nsteps>>
TInit == Init /\ l = 1 /\ viol = {} /\ nsteps = 0

Same(m, g) ==
  CASE m.k = "qc" -> /\ g.k = "qc" /\ g.hash = m.hash /\ g.round = m.round
                     /\ SeqSet(g.signers) = SeqSet(m.signers) /\ Len(g.signers) = Len(m.signers)
                     /\ g.verifies
    [] m.k = "tc" -> /\ g.k = "tc" /\ g.round = m.round
                     /\ SeqSet(g.entries) = SeqSet(m.entries) /\ Len(g.entries) = Len(m.entries)
                     /\ g.verifies
    [] OTHER      -> g.k \in {"none", "err"}

Step(e) ==
  /\ CASE e.op = "vote"    -> AddVote(e.a, e.h, e.r)
       [] e.op = "timeout" -> AddTimeout(e.a, e.r, e.hqr)
       [] e.op = "cleanup" -> Cleanup(e.r)
  /\ viol' = IF Same(res', e.got) THEN viol ELSE viol \cup {<<"C19.CertificateExactlyAtQuorum", l>>}
  /\ nsteps' = nsteps + 1

TNext ==
  /\ l <= Len(Rec) /\ l' = l + 1
  /\ LET e == Rec[l] IN
       CASE e.t = "reset" -> vm' = <<>> /\ tm' = <<>> /\ res' = None /\ nops' = 0 /\ UNCHANGED <<viol, nsteps>>
         [] e.t = "agg"   -> Step(e)
         [] OTHER         -> UNCHANGED <<vars, viol, nsteps>>
TSpec == TInit /\ [][TNext]_tvars

Accepted ==
  /\ PrintT(<<"TRACE", "records", Len(Rec), "consumed", TLCGet("stats").diameter - 1>>)
  /\ TLCGet("stats").diameter - 1 = Len(Rec)
Report == l <= Len(Rec) \/ PrintT(<<"REPORT", ToJson([ndiv |-> 0, div |-> <<>>, steps |-> nsteps, viol |-> viol])>>)
=============================================================================
