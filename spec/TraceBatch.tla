---- MODULE TraceBatch ----
(* What the real BatchMaker (and Processor) did under a TLC-generated schedule, replayed through BatchMaker.tla.
   C11 states exactly when a batch must be sealed and what it contains, so a difference is a violation. *)
EXTENDS BatchMaker, Json, IOUtils
Rec == ndJsonDeserialize(IOEnv.TRACE)
TrBatchSize == Rec[1].batch_size
TrMaxDelay  == Rec[1].max_delay
VARIABLES l, viol, nsteps
tvars == <<vars, l, viol, nsteps>>
TInit == Init /\ l = 1 /\ viol = {} /\ nsteps = 0
\* batches as sequences of transaction ids
RECURSIVE Ids2(_)
Ids2(bs) == IF bs = <<>> THEN <<>> ELSE <<IdsOf(Head(bs))>> \o Ids2(Tail(bs))
V(ok, name) == IF ok THEN {} ELSE {<<name, l>>}
Step(e) ==
  /\ CASE e.ev = "tx"      -> RecvTx(e.size)
       [] e.ev = "advance" -> Advance(e.ms)
  \* after the step the real BatchMaker must have sealed exactly the batches the specification seals
  \* (a record marked `unsettled` was handed over without letting the batch maker run: nothing to compare yet)
  /\ viol' = viol \cup (IF "unsettled" \in DOMAIN e /\ e.unsettled THEN {}
                         ELSE V(e.sealed_so_far = Ids2(sealed'), "C11.SealedExactlyWhenSpecSays") \cup V(e.panicked = FALSE, "C11.Panicked"))
  /\ nsteps' = nsteps + 1
TNext ==
  /\ l <= Len(Rec) /\ l' = l + 1
  /\ LET e == Rec[l] IN
       CASE e.t = "reset" -> /\ cur' = <<>> /\ curSize' = 0 /\ sealed' = <<>> /\ since' = 0 /\ nextId' = 1 /\ accepted' = <<>> /\ fired' = FALSE
                             /\ UNCHANGED <<viol, nsteps>>
         [] e.t = "bm" -> Step(e)
         [] e.t = "batch" ->   \* one record per sealed batch: bytes, transactions and content address
              /\ viol' = viol \cup V(e.txs_byte_identical, "C11.TransactionsByteIdentical")
                              \cup V(e.stored_under_hash_of_bytes /\ e.announced_digest_is_key, "C11.ContentAddressed")
              /\ nsteps' = nsteps + 1 /\ UNCHANGED vars
         [] OTHER -> UNCHANGED <<vars, viol, nsteps>>
TSpec == TInit /\ [][TNext]_tvars
Accepted ==
  /\ PrintT(<<"TRACE", "records", Len(Rec), "consumed", TLCGet("stats").diameter - 1>>)
  /\ TLCGet("stats").diameter - 1 = Len(Rec)
Report == l <= Len(Rec) \/ PrintT(<<"REPORT", ToJson([ndiv |-> 0, div |-> <<>>, steps |-> nsteps, viol |-> viol])>>)
SpecInvs == ExactlyOnceInOrder /\ OpenBelowThreshold /\ NoEmptyBatch /\ TimerSeals
====
