--------------------------- MODULE TraceCommittee ---------------------------
(* Validation of values computed by the real Committee types (consensus and mempool) and the real
   LeaderElector against Committee.tla.  One record per committee. *)
EXTENDS Committee, Json, IOUtils
Rec == ndJsonDeserialize(IOEnv.TRACE)
VARIABLES l, viol, nsteps
tvars == <<l, viol, nsteps>>
TInit == l = 1 /\ viol = {} /\ nsteps = 0

SeqToSet(q) == {q[i] : i \in 1..Len(q)}
\* C17: the threshold both crates compute is the unique q with q > 2n/3 and q <= n - f; QuorumNoOverflow is proved equal
\* to 2n/3+1 (CommitteeProofs.tla) and does not overflow TLC's 32-bit integers for n < 2^31
Checks(e) ==
  LET n == e.total  q == QuorumNoOverflow(n)  f == Faults(n) IN
  (IF e.q_consensus = q /\ e.q_mempool = q THEN {} ELSE {<<"C17.Threshold", l>>}) \cup
  (IF e.q_consensus = e.q_mempool THEN {} ELSE {<<"C17.CratesAgree", l>>}) \cup
  (IF e.q_consensus \in 1..n /\ 3 * (e.q_consensus - n \div 3 - n \div 3) > 2 * (n % 3) /\ e.q_consensus <= n - f THEN {} ELSE {<<"C17.Bounds", l>>}) \cup
  (IF e.lookup_consensus = e.stakes /\ e.lookup_mempool = e.stakes THEN {} ELSE {<<"C17.StakeLookup", l>>}) \cup
  (IF \A i \in 1..Len(e.unknown) : e.unknown[i] = 0 THEN {} ELSE {<<"C17.UnknownHasZeroStake", l>>}) \cup
  \* C09: one leader per round, the same from every insertion order, rank = round mod n in sorted-key order
  (IF \A i \in 1..Len(e.rounds) : e.leaders[i] = Leader(e.n, e.rounds[i]) /\ e.leaders2[i] = e.leaders[i]
      THEN {} ELSE {<<"C09.LeaderIsRoundRobinOverSortedKeys", l>>}) \cup
  (IF \A i \in 1..Len(e.windows) :
        LET wl == e.windows[i].leaders IN
        /\ SeqToSet(wl) = 0..(e.n - 1)
        /\ wl[1] = e.windows[i].first
        /\ \A k \in 1..(Len(wl) - 1) : wl[k + 1] = (wl[k] + 1) % e.n
      THEN {} ELSE {<<"C09.RotationCoversEveryAuthority", l>>})

TNext ==
  /\ l <= Len(Rec) /\ l' = l + 1
  /\ LET e == Rec[l] IN
       IF e.t = "committee" THEN viol' = viol \cup Checks(e) /\ nsteps' = nsteps + 1
       ELSE UNCHANGED <<viol, nsteps>>
TSpec == TInit /\ [][TNext]_tvars
Accepted ==
  /\ PrintT(<<"TRACE", "records", Len(Rec), "consumed", TLCGet("stats").diameter - 1>>)
  /\ TLCGet("stats").diameter - 1 = Len(Rec)
Report == l <= Len(Rec) \/ PrintT(<<"REPORT", ToJson([ndiv |-> 0, div |-> <<>>, steps |-> nsteps, viol |-> viol])>>)
=============================================================================
