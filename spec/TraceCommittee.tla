--------------------------- MODULE TraceCommittee ---------------------------
(* Validation of values computed by the real Committee types (consensus and mempool) and the real
   LeaderElector against Committee.tla.  One record per committee. *)
EXTENDS Committee, Json, IOUtils
Rec == ndJsonDeserialize(IOEnv.TRACE)
VARIABLES l, viol, nsteps, ndiv
tvars == <<l, viol, nsteps, ndiv>>
TInit == l = 1 /\ viol = {} /\ nsteps = 0 /\ ndiv = 0

SeqToSet(q) == {q[i] : i \in 1..Len(q)}
\* C17: the threshold both crates compute is the unique q with q > 2n/3 and q <= n - f; QuorumNoOverflow is proved equal
\* to 2n/3+1 (CommitteeProofs.tla) and does not overflow TLC's 32-bit integers for n < 2^31
Checks(e) ==
  LET n == e.total  q == QuorumNoOverflow(n)  f == Faults(n) IN
  (IF e.q_consensus = q /\ e.q_mempool = q THEN {} ELSE {<<"C17.Threshold", l>>}) \cup
  (IF e.q_consensus = e.q_mempool THEN {} ELSE {<<"C17.CratesAgree", l>>}) \cup
  \* 3q > 2n  <=>  q > floor(2n/3), written without products that overflow TLC's 32-bit integers whatever value the code returned
  (IF e.q_consensus \in 1..n /\ e.q_consensus > (n \div 3) * 2 + ((n % 3) * 2) \div 3 /\ e.q_consensus <= n - f THEN {} ELSE {<<"C17.Bounds", l>>}) \cup
  (IF e.lookup_consensus = e.stakes /\ e.lookup_mempool = e.stakes THEN {} ELSE {<<"C17.StakeLookup", l>>}) \cup
  (IF \A i \in 1..Len(e.unknown) : e.unknown[i] = 0 THEN {} ELSE {<<"C17.UnknownHasZeroStake", l>>}) \cup
  \* C09: one leader per round, a committee member, the same from every insertion order (derived from the committee alone) ...
  (IF \A i \in 1..Len(e.rounds) : e.leaders[i] \in 0..(e.n - 1) /\ e.leaders2[i] = e.leaders[i]
      THEN {} ELSE {<<"C09.OneAgreedLeaderPerRound", l>>}) \cup
  \* ... and every authority leads once in every n consecutive rounds (checked on every window of the sampled rounds 0..3n-1
  \* and on windows near 2^32, 2^63 and u64::MAX).  The specification's own elector is round mod n over sorted keys; an
  \* elector that rotates differently but satisfies the property is a divergence (leaders_differ_from_spec), not a violation.
  (IF /\ \A i \in 1..Len(e.windows) : SeqToSet(e.windows[i].leaders) = 0..(e.n - 1)
      /\ \A i \in 1..(Len(e.rounds) - e.n + 1) :
            (\A k \in 0..(e.n - 2) : e.rounds[i + k + 1] = e.rounds[i + k] + 1) => {e.leaders[i + k] : k \in 0..(e.n - 1)} = 0..(e.n - 1)
      THEN {} ELSE {<<"C09.RotationCoversEveryAuthority", l>>})
LeadersAsInSpec(e) == \A i \in 1..Len(e.rounds) : e.leaders[i] = Leader(e.n, e.rounds[i])

TNext ==
  /\ l <= Len(Rec) /\ l' = l + 1
  /\ LET e == Rec[l] IN
       IF e.t = "committee" THEN /\ viol' = viol \cup Checks(e) /\ nsteps' = nsteps + 1
                                 /\ ndiv' = IF LeadersAsInSpec(e) THEN ndiv ELSE ndiv + 1
       ELSE UNCHANGED <<viol, nsteps, ndiv>>
TSpec == TInit /\ [][TNext]_tvars
Accepted ==
  /\ PrintT(<<"TRACE", "records", Len(Rec), "consumed", TLCGet("stats").diameter - 1>>)
  /\ TLCGet("stats").diameter - 1 = Len(Rec)
Report == l <= Len(Rec) \/ PrintT(<<"REPORT", ToJson([ndiv |-> ndiv, div |-> <<>>, steps |-> nsteps, viol |-> viol])>>)
=============================================================================
