---- MODULE TraceCrypto ----
(* Results of the real crypto crate on concrete instances of the Crypto.tla case matrix (and on every single-bit
   corruption of signature, digest and key, and on key encodings), checked against the ideal functionality. *)
EXTENDS Crypto, Json, IOUtils
Rec == ndJsonDeserialize(IOEnv.TRACE)
VARIABLES l, viol, nsteps
tvars == <<l, viol, nsteps>>
TInit == l = 1 /\ viol = {} /\ nsteps = 0
Checks(e) ==
  (IF e.panicked THEN {<<"C18.Panicked", l>>} ELSE {}) \cup
  (CASE e.kind = "batch" ->
          (IF e.batch_ok = VerifyBatch(e.members) THEN {} ELSE {<<"C18.BatchVerdict", l>>}) \cup
          (IF \A j \in 1..Len(e.members) : e.each_ok[j] = Verify(e.members[j]) THEN {} ELSE {<<"C18.SingleVerdict", l>>}) \cup
          (IF e.batch_ok <=> (\A j \in 1..Len(e.members) : e.each_ok[j]) THEN {} ELSE {<<"C18.BatchIffEach", l>>})
     [] e.kind = "single" -> IF e.accepted = (e.what = "none") THEN {} ELSE {<<"C18.AnyBitMatters", l>>}
     [] e.kind = "roundtrip" -> IF e.ok THEN {} ELSE {<<"C18.EncodingRoundTrip", l>>}
     [] OTHER -> {})
TNext ==
  /\ l <= Len(Rec) /\ l' = l + 1
  /\ LET e == Rec[l] IN
       IF e.t = "crypto" THEN viol' = viol \cup Checks(e) /\ nsteps' = nsteps + 1
       ELSE UNCHANGED <<viol, nsteps>>
TSpec == TInit /\ [][TNext]_tvars
Accepted ==
  /\ PrintT(<<"TRACE", "records", Len(Rec), "consumed", TLCGet("stats").diameter - 1>>)
  /\ TLCGet("stats").diameter - 1 = Len(Rec)
Report == l <= Len(Rec) \/ PrintT(<<"REPORT", ToJson([ndiv |-> 0, div |-> <<>>, steps |-> nsteps, viol |-> viol])>>)
====
