---- MODULE TraceDigests ----
(* Black-box observations of the real digest() functions, checked against what Digests.tla establishes for the layout:
   messages that differ in a bound field have different digests, kinds never coincide, round trips preserve identity.
   A layout different from the specification's is recorded as a divergence only. *)
EXTENDS Digests, Json, IOUtils
Rec == ndJsonDeserialize(IOEnv.TRACE)
VARIABLES l, viol, nsteps, ndiv
tvars == <<l, viol, nsteps, ndiv>>
TInit == l = 1 /\ viol = {} /\ nsteps = 0 /\ ndiv = 0
Checks(e) ==
  CASE e.kind = "pair"      -> IF e.differ THEN {} ELSE {<<"C20.DigestBindsField", l>>}
    [] e.kind = "cross"     -> IF e.differ THEN {} ELSE {<<"C20.KindsNeverCoincide", l>>}
    [] e.kind = "universe"  -> IF e.distinct = e.messages /\ e.messages = USize THEN {} ELSE {<<"C20.DistinctMessagesDistinctDigests", l>>}
    [] e.kind = "roundtrip" -> IF e.same_digest /\ e.verifies THEN {} ELSE {<<"C20.RoundTripPreservesIdentity", l>>}
    [] OTHER -> {}
TNext ==
  /\ l <= Len(Rec) /\ l' = l + 1
  /\ LET e == Rec[l] IN
       IF e.t = "digest" THEN /\ viol' = viol \cup Checks(e) /\ nsteps' = nsteps + 1
                              /\ ndiv' = IF e.kind = "layout" /\ ~e.match THEN ndiv + 1 ELSE ndiv
       ELSE UNCHANGED <<viol, nsteps, ndiv>>
TSpec == TInit /\ [][TNext]_tvars
Accepted ==
  /\ PrintT(<<"TRACE", "records", Len(Rec), "consumed", TLCGet("stats").diameter - 1>>)
  /\ TLCGet("stats").diameter - 1 = Len(Rec)
Report == l <= Len(Rec) \/ PrintT(<<"REPORT", ToJson([ndiv |-> ndiv, div |-> <<>>, steps |-> nsteps, viol |-> viol])>>)
====
