---- MODULE TraceFetch ----
(***************************************************************************)
(* What the real consensus Synchronizer + Helper, MempoolDriver +          *)
(* PayloadWaiter and mempool Synchronizer + Helper did (frames written,    *)
(* blocks looped back, values returned) under a TLC-generated schedule of  *)
(* Fetch.tla's actions, replayed through Fetch.tla.                        *)
(*                                                                         *)
(*  * divergence: the observed result / effects of a move differ from      *)
(*    Fetch.tla's (`res`, `out`).  Reported, never an alarm.               *)
(*  * monitors: the properties, evaluated on the OBSERVED history only     *)
(*    (what the harness wrote to the store, what came back), so a          *)
(*    divergence of the model cannot cause or hide an alarm.               *)
(***************************************************************************)
EXTENDS Fetch, Sequences, Json, IOUtils
Rec == ndJsonDeserialize(IOEnv.TRACE)
H == Rec[1]
TrNB == H.nb
SeqFn(q) == [i \in 1..Len(q) |-> q[i]]
ToSet(q) == {q[i] : i \in 1..Len(q)}
TrPar == SeqFn(H.par)
TrAuth == SeqFn(H.auth)
TrPay == [i \in 1..Len(H.pay) |-> ToSet(H.pay[i])]
TrRnd == SeqFn(H.rnd)
TrBatches == ToSet(H.batches)
TrPeers == ToSet(H.peers)
TrBlockTimer == H.block_timer
TrBatchTimer == H.batch_timer
TrBRetry == H.b_retry_delay
TrMRetry == H.m_retry_delay
TrRetryNodes == H.retry_nodes
TrGc == H.gc_depth
Patience == 6           \* an unanswered request counts as "not retried" only after this many timer periods

VARIABLES l, div, ndiv, viol, nsteps,
          waitB, waitP,            \* observed: blocks told "missing" / "wait" and not yet looped back
          breqd, bfirst, bwait, bretried,   \* observed: block keys requested on the wire; <<key, first target>>; time waited; keys re-requested elsewhere
          mreqd, mfirst, mwait, mretried, cleaned
hvars == <<waitB, waitP, breqd, bfirst, bwait, bretried, mreqd, mfirst, mwait, mretried, cleaned>>
tvars == <<vars, l, div, ndiv, viol, nsteps, hvars>>

Zero(S) == [d \in S |-> 0]
\* the report keeps the first 60 monitor failures (a set that grows with every record makes every later state larger)
Lim(S) == IF Cardinality(viol) >= 60 THEN {} ELSE S

HInit == /\ waitB = {} /\ waitP = {} /\ breqd = {} /\ bfirst = {} /\ bwait = Zero(Blocks) /\ bretried = {}
         /\ mreqd = {} /\ mfirst = {} /\ mwait = Zero(Batches) /\ mretried = {} /\ cleaned = FALSE
TInit == Init /\ HInit /\ l = 1 /\ div = <<>> /\ ndiv = 0 /\ viol = {} /\ nsteps = 0

\* observed effects, normalised to the shape of `out`
NormOne(o) ==
  CASE o.k = "breq" -> [k |-> "breq", d |-> o.d, to |-> o.to]
    [] o.k = "mreq" -> [k |-> "mreq", ds |-> ToSet(o.ds), to |-> o.to]
    [] o.k \in {"resume", "presume"} -> [k |-> o.k, b |-> o.b]
    [] o.k \in {"brep", "mrep"} -> [k |-> o.k, d |-> o.d, to |-> o.to]
    [] OTHER -> [k |-> "unknown"]
Obs(e) == {NormOne(e.out[i]) : i \in 1..Len(e.out)}
\* on a timer move the mempool retry goes to RetryNodes random peers: compare the number of distinct targets
Lucky(O) == LET M == {o \in O : o.k = "mreq"} IN
            (O \ M) \cup {[k |-> "mlucky", ds |-> m.ds, n |-> Cardinality({x.to : x \in {y \in M : y.ds = m.ds}})] : m \in M}
ObsCmp(e) == IF e.mv.a = "advance" THEN Lucky(Obs(e)) ELSE Obs(e)

ModelStep(e) ==
  CASE e.mv.a = "ask" -> Ask(e.mv.b)
    [] e.mv.a = "verify" -> Verify(e.mv.b)
    [] e.mv.a = "cleanup" -> Cleanup(e.mv.r)
    [] e.mv.a = "write" -> Write(e.mv.key)
    [] e.mv.a = "advance" -> Advance(e.mv.ms)
    [] e.mv.a = "breqin" -> BlockRequest(e.mv.d, e.mv.p)
    [] e.mv.a = "mreqin" -> BatchRequest(ToSet(e.mv.ds), e.mv.p)

\* ---- monitors on the observed history -------------------------------------------------------------------
Fail(e, O, st2) ==   \* st2: the store after the move (driven by the harness, hence exact)
  LET a == e.mv.a
      resumed  == {o.b : o \in {x \in O : x.k = "resume"}}
      presumed == {o.b : o \in {x \in O : x.k = "presume"}}
      breqnow  == {o.d : o \in {x \in O : x.k = "breq"}}
      mreqnow  == UNION {o.ds : o \in {x \in O : x.k = "mreq"}} IN
  {<<"C07.ResumedBeforeParentStored", l>> : b \in {x \in resumed : x \in Blocks /\ Par[x] # 0 /\ Par[x] \notin st2}}
  \cup {<<"C08.ResumedWithoutPayload", l>> : b \in {x \in presumed : x \in Blocks /\ ~(Pay[x] \subseteq st2)}}
  \cup (IF a = "write" THEN {<<"C07.ParkedBlockNotResumed", l>> : b \in {x \in waitB : Par[x] = e.mv.key} \ resumed} ELSE {})
  \cup (IF a = "write" /\ ~cleaned THEN {<<"C13.PayloadBlockNotResumed", l>> : b \in {x \in waitP : Pay[x] \subseteq st2} \ presumed} ELSE {})
  \cup (IF a = "ask" /\ e.res = "missing" /\ Par[e.mv.b] \notin breqd /\ Par[e.mv.b] \notin breqnow
        THEN {<<"C07.MissingParentNotRequested", l>>} ELSE {})
  \cup (IF a = "ask" /\ e.res = "have" /\ Par[e.mv.b] # 0 /\ Par[e.mv.b] \notin st2 THEN {<<"C07.ParentReportedPresent", l>>} ELSE {})
  \cup (IF a = "ask" /\ e.res = "missing" /\ (Par[e.mv.b] = 0 \/ Par[e.mv.b] \in st2) THEN {<<"C07.StoredParentReportedMissing", l>>} ELSE {})
  \cup (IF a = "verify" /\ e.res = "ok" /\ ~(Pay[e.mv.b] \subseteq st2) THEN {<<"C08.VerifiedWithoutPayload", l>>} ELSE {})
  \cup (IF a = "verify" /\ e.res = "wait" /\ Pay[e.mv.b] \subseteq st2 THEN {<<"C13.AvailablePayloadReportedMissing", l>>} ELSE {})
  \cup (IF a = "verify" /\ e.res = "wait" /\ ~cleaned /\ ~(((Pay[e.mv.b] \ st2) \ mreqd) \subseteq mreqnow)
        THEN {<<"C13.MissingBatchNotRequested", l>>} ELSE {})
  \cup (IF a = "breqin"
        THEN LET want == IF e.mv.d \in st2 /\ e.mv.d \in Blocks THEN {[k |-> "brep", d |-> e.mv.d, to |-> e.mv.p]} ELSE {}
                 got  == {o \in O : o.k \in {"brep", "unknown"}} IN
             IF got = want THEN {} ELSE {<<"C07.HelperAnswersWithStoredBlock", l>>}
        ELSE {})
  \cup (IF a = "mreqin"
        THEN LET want == {[k |-> "mrep", d |-> d, to |-> e.mv.p] : d \in ToSet(e.mv.ds) \cap st2}
                 got  == {o \in O : o.k \in {"mrep", "unknown"}} IN
             IF got = want THEN {} ELSE {<<"C13.HelperAnswersWithStoredBatch", l>>}
        ELSE {})
  \cup (IF "panic" \in DOMAIN e THEN {<<"C07.Panicked", l>>} ELSE {})

\* an unanswered request is re-sent to peers other than its first target again and again: it never goes Patience timer periods without such a
\* re-send (the first one included).  Evaluated at the move in which the gap crosses the bound.
GapFail(e, O) ==
  LET dt == IF e.mv.a = "advance" THEN e.mv.ms ELSE 0
      bnow == {o.d : o \in {x \in O : x.k = "breq" /\ x.d \in breqd /\ <<x.d, x.to>> \notin bfirst}}
      mnow == UNION {{y \in o.ds : y \in mreqd /\ <<y, o.to>> \notin mfirst} : o \in {x \in O : x.k = "mreq"}}
      bb == Patience * (BlockTimer + BRetryDelay)
      mb == Patience * (BatchTimer + MRetryDelay) IN
  {<<"C07.UnansweredRequestRetried", l>> : d \in {x \in breqd \ stored : x \notin bnow /\ bwait[x] < bb /\ bwait[x] + dt >= bb}}
  \cup (IF cleaned THEN {} ELSE
        {<<"C13.UnansweredBatchRequestRetried", l>> : d \in {x \in mreqd \ stored : x \notin mnow /\ mwait[x] < mb /\ mwait[x] + dt >= mb}})
EndFail == {}

HistStep(e, O) ==
  LET a == e.mv.a
      st2 == IF a = "write" THEN stored \cup {e.mv.key} ELSE stored
      resumed  == {o.b : o \in {x \in O : x.k = "resume"}}
      presumed == {o.b : o \in {x \in O : x.k = "presume"}}
      breqs == {o \in O : o.k = "breq"}
      mreqs == {o \in O : o.k = "mreq"}
      dt == IF a = "advance" THEN e.mv.ms ELSE 0 IN
  /\ waitB' = ((IF a = "ask" /\ e.res = "missing" THEN waitB \cup {e.mv.b} ELSE waitB) \ resumed)
  /\ waitP' = IF a = "cleanup" THEN {} ELSE ((IF a = "verify" /\ e.res = "wait" THEN waitP \cup {e.mv.b} ELSE waitP) \ presumed)
  /\ cleaned' = (cleaned \/ a = "cleanup")
  /\ breqd' = breqd \cup {o.d : o \in breqs}
  /\ bfirst' = bfirst \cup {<<o.d, o.to>> : o \in {x \in breqs : x.d \notin breqd}}
  /\ bretried' = bretried \cup {o.d : o \in {x \in breqs : x.d \in breqd /\ <<x.d, x.to>> \notin bfirst}}
  \* bwait / mwait: how long an unanswered request has gone without being (re-)sent to a peer other than its first target
  /\ bwait' = [d \in Blocks |-> IF d \in {o.d : o \in {x \in breqs : x.d \in breqd /\ <<x.d, x.to>> \notin bfirst}} THEN 0
                               ELSE IF d \in breqd /\ d \notin st2 THEN bwait[d] + dt ELSE bwait[d]]
  /\ mreqd' = mreqd \cup UNION {o.ds : o \in mreqs}
  /\ mfirst' = mfirst \cup UNION {{<<d, o.to>> : d \in o.ds \ mreqd} : o \in mreqs}
  /\ mretried' = mretried \cup UNION {{d \in o.ds : d \in mreqd /\ <<d, o.to>> \notin mfirst} : o \in mreqs}
  /\ mwait' = [d \in Batches |-> IF d \in UNION {{y \in o.ds : y \in mreqd /\ <<y, o.to>> \notin mfirst} : o \in mreqs} THEN 0
                                ELSE IF d \in mreqd /\ d \notin st2 THEN mwait[d] + dt ELSE mwait[d]]

TNext ==
  /\ l <= Len(Rec) /\ l' = l + 1
  /\ LET e == Rec[l] IN
     IF e.t = "fx"
     THEN LET O == Obs(e) IN
          /\ ModelStep(e)
          /\ HistStep(e, O)
          /\ LET agree == (ObsCmp(e) = out') /\ (e.res = res') IN
             /\ ndiv' = IF agree THEN ndiv ELSE ndiv + 1
             /\ div' = IF agree \/ Len(div) >= 20 THEN div
                       ELSE Append(div, [rec |-> l, kind |-> e.mv.a, want |-> [res |-> res', out |-> out'], got |-> [res |-> e.res, out |-> ObsCmp(e)]])
          /\ viol' = viol \cup Lim(Fail(e, O, IF e.mv.a = "write" THEN stored \cup {e.mv.key} ELSE stored) \cup GapFail(e, O))
          /\ nsteps' = nsteps + 1
     ELSE IF e.t \in {"reset", "end"}
     THEN /\ viol' = IF l = 1 THEN viol ELSE viol \cup Lim(EndFail)
          /\ stored' = {} /\ bpend' = {} /\ breq' = {} /\ bage' = [d \in Blocks |-> 0] /\ bleft' = BlockTimer /\ bsince' = 0
          /\ mpend' = {} /\ mrnd' = [d \in Batches |-> 0] /\ mage' = [d \in Batches |-> 0] /\ mround' = 0 /\ mleft' = BatchTimer /\ msince' = 0
          /\ ppend' = {} /\ out' = {} /\ res' = "init"
          /\ waitB' = {} /\ waitP' = {} /\ breqd' = {} /\ bfirst' = {} /\ bwait' = Zero(Blocks) /\ bretried' = {}
          /\ mreqd' = {} /\ mfirst' = {} /\ mwait' = Zero(Batches) /\ mretried' = {} /\ cleaned' = FALSE
          /\ UNCHANGED <<div, ndiv, nsteps>>
     ELSE UNCHANGED <<vars, div, ndiv, viol, nsteps, hvars>>
TSpec == TInit /\ [][TNext]_tvars
Accepted == TLCGet("stats").diameter >= 1
Report == l <= Len(Rec) \/ PrintT(<<"REPORT", ToJson([ndiv |-> ndiv, div |-> div, steps |-> nsteps, viol |-> viol, consumed |-> l - 1, records |-> Len(Rec)])>>)
\* the specification's own invariants must hold along every recorded execution as replayed by the model
SpecInvs == ParkedHasRequest /\ RequestHasParked /\ TimerNotPostponed /\ WaitersNeedData /\ MPendMissing
====
