------------------------------ MODULE TraceFull ------------------------------
(* Scenario-level monitors for full-node runs (harness/src/full.rs), one "summary" record per run:
   C06  after stabilisation every live node keeps committing: no gap longer than the bound the model gives
        (each crashed leader in a row costs one round timeout, plus the rounds needed to commit);
   C07  the node that was cut off ends up (almost) as far as the others; helpers only send what was asked for;
   C13  every submitted transaction is in a committed block at every live node, its batch readable from that store.
   Safety of the same runs (Agreement, chain order, C08 ...) is checked on the same file by TraceHS. *)
EXTENDS Integers, Sequences, FiniteSets, TLC, Json, IOUtils
Rec == ndJsonDeserialize(IOEnv.TRACE)
VARIABLES l, viol, nsteps
tvars == <<l, viol, nsteps>>
TInit == l = 1 /\ viol = {} /\ nsteps = 0
V(ok, name) == IF ok THEN {} ELSE {<<name, l>>}
SeqSet(q) == {q[i] : i \in 1..Len(q)}
NodeKey(i) == ToString(i)
\* f crashed nodes can be consecutive leaders: at most Len(crash) timeouts in a row, then 3 rounds to commit, each at most
\* a few ticks; generous slack for message latency
GapBound(e) == (Len(e.crash) + 2) * e.timeout_ticks + 40
Checks(e) ==
  LET live == SeqSet(e.live) IN
  CASE e.kind = "live" ->
         V(\A i \in live : e.nodes[NodeKey(i)].commits > 0 /\ e.nodes[NodeKey(i)].max_gap_ticks <= GapBound(e), "C06.CommitsKeepHappening")
    [] e.kind = "lag" ->
         LET x == e.isolate[1]
             best == CHOOSE r \in {e.nodes[NodeKey(i)].last_round : i \in live} : \A j \in live : e.nodes[NodeKey(j)].last_round <= r
         IN V(e.nodes[NodeKey(x)].last_round + 6 >= best /\ e.nodes[NodeKey(x)].commits > 0, "C07.LaggingNodeCatchesUp") \cup
            V(e.helper_replies_bad = 0, "C07.HelperSendsRequestedBlock")
    [] e.kind \in {"e2e", "avail"} ->
         V(\A i \in live : e.e2e[NodeKey(i)].submitted_committed = e.submitted, "C13.SubmittedTransactionsCommitEverywhere") \cup
         V(\A i \in live : e.e2e[NodeKey(i)].unreadable = 0, "C13.CommittedBatchesReadable")
    [] OTHER -> {}
TNext ==
  /\ l <= Len(Rec) /\ l' = l + 1
  /\ LET e == Rec[l] IN
       IF e.t = "summary" THEN viol' = viol \cup Checks(e) /\ nsteps' = nsteps + 1
       ELSE UNCHANGED <<viol, nsteps>>
TSpec == TInit /\ [][TNext]_tvars
Accepted ==
  /\ PrintT(<<"TRACE", "records", Len(Rec), "consumed", TLCGet("stats").diameter - 1>>)
  /\ TLCGet("stats").diameter - 1 = Len(Rec)
Report == l <= Len(Rec) \/ PrintT(<<"REPORT", ToJson([ndiv |-> 0, div |-> <<>>, steps |-> nsteps, viol |-> viol])>>)
=============================================================================
