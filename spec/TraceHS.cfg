SPECIFICATION TSpec
CONSTANTS
 N <- TrN
 Stake <- TrStake
 Honest <- TrHonest
 MaxRound = 0
 Variants = {0}
 Weaken = {}
 CommitAlgo = "fixed"
INVARIANTS Report
POSTCONDITION Accepted
CHECK_DEADLOCK FALSE
