------------------------------ MODULE TraceHS ------------------------------
(***************************************************************************)
(* Trace validation: executions recorded from the real consensus stack     *)
(* (hooks under cfg(hotstuff_verif), grouped by the rig into one record    *)
(* per handler invocation) are checked against HotStuff.tla.               *)
(*                                                                         *)
(*  - Every record of a core handler is compared with the corresponding    *)
(*    operator applied to the model state of that node: scalar post-state  *)
(*    and the sequence of effects.  A mismatch is a DIVERGENCE (recorded   *)
(*    in `div`, never an alarm); the model state is then re-synchronised   *)
(*    on the logged state so that the rest of the trace is still checked.  *)
(*  - `delivered` and `hist` are filled from the LOGGED effects only, so   *)
(*    the property formulas of HotStuff.tla, evaluated here, are           *)
(*    statements about what the implementation did.                        *)
(***************************************************************************)
EXTENDS HotStuff, Json, IOUtils

Rec == ndJsonDeserialize(IOEnv.TRACE)

\* configuration of the runs in this file (first record is a reset record)
TrN      == Rec[1].n
TrStake  == [i \in 0..(Rec[1].n - 1) |-> Rec[1].stakes[i + 1]]
TrHonest == {Rec[1].honest[i] : i \in 1..Len(Rec[1].honest)}
\* the leader of each round as the REAL LeaderElector computes it for this committee (abstract authority indices; table in the header).
\* The leader monitor judges the code by its own election (whose determinism, committee-only dependence and rotation are checked separately,
\* TraceCommittee); a rotation that differs from the model's `round mod n` shows up as handler divergences, not as an alarm.
ObsLeader(r) == IF "leaders" \in DOMAIN Rec[1] /\ r + 1 <= Len(Rec[1].leaders) THEN Rec[1].leaders[r + 1] ELSE Leader(r)
VoteOnlyLeaderBlocksObs == \A n \in Honest : \A v \in hist[n].votes : Auth(v.blk) = ObsLeader(Rnd(v.blk))

\* block dictionary: ids are unique over the whole file, 0 = genesis
\* (the harness numbers the dictionary records 1, 2, ... in file order)
BlkSeq == SelectSeq(Rec, LAMBDA r : r.t = "blk")
BInfo  == [id \in 1..Len(BlkSeq) |-> BlkSeq[id]]
RECURSIVE Blk(_)
Blk(id) == IF id = 0 \/ id \notin DOMAIN BInfo THEN Genesis
           ELSE <<BInfo[id].round, BInfo[id].author, BInfo[id].variant,
                  IF BInfo[id].parent = id THEN Genesis ELSE Blk(BInfo[id].parent)>>
T == [id \in DOMAIN BInfo |-> Blk(id)]
B(id) == IF id = 0 THEN Genesis ELSE T[id]

VARIABLES l,      \* next record
          div,    \* divergences: <<line, what>> (first 30)
          ndiv,   \* number of divergences
          lst,    \* [node -> last logged scalar state]
          nsteps, \* core/task records compared
          viol,   \* property monitors that failed: <<name, line of the run boundary>>
          have,   \* [node -> keys written to the node's store by the mempool Processor (batch digests)]
          seen,   \* [node -> verified votes and timeouts the node has been given (or cast itself)]
          mp      \* [node -> own: batches it sealed, acks: <<digest, acker>> acknowledgements that reached it, rel: batches released]
tvars == <<vars, l, div, ndiv, lst, nsteps, viol, have, seen, mp>>
\* the report keeps the first 80 monitor failures (a set that grows with every record makes every later state larger)
Lim(S) == IF Cardinality(viol) >= 80 THEN {} ELSE S

InitLst == [r |-> 1, lv |-> 0, lc |-> 0, hq |-> Genesis]

TInit ==
  /\ Init
  /\ l = 1 /\ div = <<>> /\ ndiv = 0 /\ nsteps = 0 /\ viol = {}
  /\ lst = [n \in Honest |-> InitLst]
  /\ have = [n \in Honest |-> {}]
  /\ seen = [n \in Honest |-> [votes |-> {}, tos |-> {}, qok |-> {}, qbad |-> {}]]
  /\ mp = [n \in Honest |-> [own |-> {}, acks |-> {}, rel |-> {}]]

-----------------------------------------------------------------------------
\* normal form of effects, shared by model and log
NormModel(out) ==
  LET keep == SelectSeq(out, LAMBDA e : e.k \notin {"tc", "err", "propose"})
      F(e) == CASE e.k = "round"   -> <<"round", e.round>>
                [] e.k = "make"    -> <<"make", e.round, e.qc, e.tc>>
                [] e.k = "timeout" -> <<"timeout", e.round, e.hq>>
                [] e.k = "tcmade"  -> <<"tcmade", e.tc>>
                [] OTHER           -> <<e.k, e.blk>>
  IN [i \in 1..Len(keep) |-> F(keep[i])]
NormLog(out) ==
  LET F(e) == CASE e.k = "round"   -> <<"round", e.round>>
                [] e.k = "make"    -> <<"make", e.round, B(e.qc), e.tc>>
                [] e.k = "timeout" -> <<"timeout", e.round, B(e.hq)>>
                [] e.k = "tcmade"  -> <<"tcmade", e.tc>>
                [] OTHER           -> <<e.k, B(e.blk)>>
  IN [i \in 1..Len(out) |-> F(out[i])]

ModelErr(out) == LET errs == SelectSeq(out, LAMBDA e : e.k = "err") IN IF errs = <<>> THEN "" ELSE errs[1].e

VerifErrs == {"InvalidSignature", "UnknownAuthority", "QCRequiresQuorum", "TCRequiresQuorum",
              "MalformedBlock", "InvalidPayload", "SerializationError", "NotInCommittee"}

Prop(in) == [blk |-> B(in.blk), tc |-> in.tc]
LoggedKinds(e, kind) == SelectSeq(e.out, LAMBDA x : x.k = kind)
HasKind(e, kind) == LoggedKinds(e, kind) # <<>>

\* the batch digests of a block's payload (from the dictionary); availability of a payload is judged by the MODEL from the
\* keys written to the node's store so far (have), not taken from the log
PayloadOf(id) == IF id = 0 \/ id \notin DOMAIN BInfo THEN {} ELSE {BInfo[id].payload[i] : i \in 1..Len(BInfo[id].payload)}

\* what the model predicts for a core record
Predict(e, s0) ==
  CASE e.k = "Propose"  -> HandleProposal(s0, Prop(e.in), PayloadOf(e.in.blk) \subseteq have[s0.me])
    [] e.k = "Loopback" -> Loopback(s0, Prop(e.in))
    [] e.k = "Vote"     -> HandleVote(s0, [blk |-> B(e.in.blk), author |-> e.in.author])
    [] e.k = "Timeout"  -> HandleTimeout(s0, [round |-> e.in.round, author |-> e.in.author, hq |-> B(e.in.hq)])
    [] e.k = "TC"       -> HandleTC(s0, e.in.tc)
    [] e.k = "Timer"    -> LocalTimeout(s0)
    [] e.k = "Boot"     -> IF Leader(1) = s0.me
                           THEN Emit(s0, [k |-> "make", round |-> 1, qc |-> Genesis, tc |-> NoTC]) ELSE s0
    [] OTHER            -> s0

Rejected(e) == ~e.ok /\ (e.err \in VerifErrs \/ (e.err = "AuthorityReuse" /\ e.k \in {"Propose", "TC"}))

Scalars(e) == [r |-> e.st.r, lv |-> e.st.lv, lc |-> e.st.lc, hq |-> B(e.st.hq)]
ScalarsOf(s) == [r |-> s.r, lv |-> s.lv, lc |-> s.lc, hq |-> s.hq]

\* adopt the logged state (divergence): keep the model's bookkeeping, trust the log for what it shows
Resync(s, e) ==
  LET stores == {B(LoggedKinds(e, "store")[i].blk) : i \in 1..Len(LoggedKinds(e, "store"))} IN
  [s EXCEPT !.r = e.st.r, !.lv = e.st.lv, !.lc = e.st.lc, !.hq = B(e.st.hq),
            !.stored = @ \cup stores, !.out = <<>>]

RECURSIVE SeqBlk(_)
SeqBlk(q) == IF q = <<>> THEN <<>> ELSE <<B(Head(q).blk)>> \o SeqBlk(Tail(q))
SetOfSeq(q) == {q[i] : i \in 1..Len(q)}
RECURSIVE AppendAll(_, _)
AppendAll(q, x) == IF x = <<>> THEN q ELSE AppendAll(Append(q, Head(x)), Tail(x))

InTC(e)    == IF e.k \in {"Propose", "Loopback"} THEN e.in.tc ELSE NoTC
InCerts(e) == CASE e.k \in {"Propose", "Loopback"} ->
                     {Rnd(Par(B(e.in.blk)))} \cup (IF e.in.tc # NoTC THEN {e.in.tc.round} ELSE {})
                [] e.k = "Timeout" -> {Rnd(B(e.in.hq))}
                [] e.k = "TC"      -> {e.in.tc.round}
                [] OTHER           -> {}
InBlk(e)   == IF e.k \in {"Propose", "Loopback"} THEN B(e.in.blk) ELSE Genesis

\* observations, from the LOG
Observe(n, e) ==
  LET votesL == LoggedKinds(e, "vote")
      tosL   == LoggedKinds(e, "timeout")
      rndL   == LoggedKinds(e, "round")
      comL   == LoggedKinds(e, "commit")
      h      == hist[n]
  IN
  /\ delivered' = [delivered EXCEPT ![n] = @ \o SeqBlk(comL)]
  /\ hist' = [hist EXCEPT ![n] =
       [votes    |-> h.votes \cup {[blk |-> B(votesL[i].blk), tc |-> InTC(e), lvBefore |-> lst[n].lv,
                                    toBefore |-> {t.round : t \in h.timeouts}] : i \in 1..Len(votesL)},
        timeouts |-> h.timeouts \cup {[round |-> tosL[i].round, hqr |-> Rnd(B(tosL[i].hq))] : i \in 1..Len(tosL)},
        props    |-> h.props,
        rounds   |-> AppendAll(h.rounds, [i \in 1..Len(rndL) |-> rndL[i].round]),
        certs    |-> h.certs \cup InCerts(e)
                       \cup {LoggedKinds(e, "qc")[i].round : i \in 1..Len(LoggedKinds(e, "qc"))}
                       \cup {LoggedKinds(e, "tcmade")[i].tc.round : i \in 1..Len(LoggedKinds(e, "tcmade"))},
        commits  |-> IF comL # <<>> THEN Append(h.commits, [by |-> InBlk(e), seq |-> SeqBlk(comL)]) ELSE h.commits,
        shown    |-> h.shown \cup (IF InBlk(e) # Genesis THEN {InBlk(e)} ELSE {})]]
  /\ lst' = [lst EXCEPT ![n] = Scalars(e)]

Diverge(what) == /\ ndiv' = ndiv + 1
                 /\ div' = IF Len(div) < 30 THEN Append(div, <<l, what>>) ELSE div
NoDiverge == UNCHANGED <<div, ndiv>>

\* C08: when the node votes for a block of another authority, or delivers a block as committed, every batch digest of
\* the block's payload is a key the node's own store holds (written by its mempool Processor before this step)
AvailViol(n, e) ==
  LET vs == LoggedKinds(e, "vote")  cs == LoggedKinds(e, "commit")  ss == LoggedKinds(e, "store") IN
  \* "a proposal whose batches are missing is parked until they arrive": a block of another authority is processed (stored)
  \* only when its batches are in the node's own store
  (IF \A i \in 1..Len(ss) : (ss[i].blk \in DOMAIN BInfo /\ BInfo[ss[i].blk].author = n) \/ PayloadOf(ss[i].blk) \subseteq have[n]
      THEN {} ELSE {<<"C08.ParkedUntilPayloadArrives", l>>}) \cup
  (IF \A i \in 1..Len(vs) : (vs[i].blk \in DOMAIN BInfo /\ BInfo[vs[i].blk].author = n) \/ PayloadOf(vs[i].blk) \subseteq have[n] THEN {} ELSE {<<"C08.VoteHasPayload", l>>}) \cup
  (IF \A i \in 1..Len(cs) : PayloadOf(cs[i].blk) \subseteq have[n] THEN {} ELSE {<<"C08.CommitHasPayload", l>>})

\* C19 at system level: every certificate a node assembles consists of distinct authorities holding a quorum of the stake,
\* each of which had sent this node a vote for that very block (a timeout for that very round, with that reported round)
SeenAfter(n, e) ==
  LET vs == LoggedKinds(e, "vote")  ts == LoggedKinds(e, "timeout")
      \* a vote / timeout counts as received only if it reached the node correctly signed -- judged by the harness with Vote::verify /
      \* Timeout::verify outside the node (`in.sig_ok`), not by the node's own acceptance
      sig == "sig_ok" \notin DOMAIN e.in \/ e.in.sig_ok
      v1 == IF e.k = "Vote" /\ e.ok /\ sig THEN seen[n].votes \cup {<<B(e.in.blk), e.in.author>>} ELSE seen[n].votes
      t1 == IF e.k = "Timeout" /\ e.ok /\ sig THEN seen[n].tos \cup {<<e.in.round, e.in.author, e.in.hqr>>} ELSE seen[n].tos
  IN [votes |-> v1 \cup {<<B(vs[i].blk), n>> : i \in 1..Len(vs)},
      tos   |-> t1 \cup {<<ts[i].round, n, Rnd(B(ts[i].hq))>> : i \in 1..Len(ts)},
      \* C05 ("certified"): the harness inspects every proposal that travels to a real node (`in.qc_ok`: the QC is the exact genesis QC or a
      \* certificate of the parent's round that verifies under the committee); remembered per node and block
      qok  |-> IF e.k = "Propose" /\ "qc_ok" \in DOMAIN e.in /\ e.in.qc_ok THEN seen[n].qok \cup {e.in.blk} ELSE seen[n].qok,
      qbad |-> IF e.k = "Propose" /\ "qc_ok" \in DOMAIN e.in /\ ~e.in.qc_ok THEN seen[n].qbad \cup {e.in.blk} ELSE seen[n].qbad]
\* a block whose processing triggers a commit must have reached the node with a valid certificate at least once
CertifiedViol(n, e) ==
  LET sa == SeenAfter(n, e) IN
  IF LoggedKinds(e, "commit") # <<>> /\ e.k \in {"Propose", "Loopback"} /\ e.in.blk \in sa.qbad \ sa.qok
  THEN {<<"C05.CommitTriggeredByCertifiedBlock", l>>} ELSE {}
CertViol(n, e) ==
  LET sa == SeenAfter(n, e)  qcs == LoggedKinds(e, "qc")  tcl == LoggedKinds(e, "tcmade") IN
  (IF \A i \in 1..Len(qcs) : LET S == SetOfSeq(qcs[i].signers) IN
          /\ Cardinality(S) = Len(qcs[i].signers) /\ S \subseteq Node /\ SumStake(S) >= Quorum
          /\ qcs[i].round = Rnd(B(qcs[i].blk))
          /\ \A a \in S : <<B(qcs[i].blk), a>> \in sa.votes
   THEN {} ELSE {<<"C19.QCFromReceivedVotes", l>>}) \cup
  (IF \A i \in 1..Len(tcl) : LET es == tcl[i].full.votes  A == {es[j][1] : j \in 1..Len(es)} IN
          /\ Cardinality(A) = Len(es) /\ A \subseteq Node /\ SumStake(A) >= Quorum
          /\ \A j \in 1..Len(es) : <<tcl[i].full.round, es[j][1], es[j][2]>> \in sa.tos
   THEN {} ELSE {<<"C19.TCFromReceivedTimeouts", l>>})

CoreStep(e) ==
  LET n == e.node  s0 == ns[n]
      pred == IF Rejected(e) THEN s0 ELSE Predict(e, s0)
      okInput == e.k # "Loopback" \/ Prop(e.in) \in s0.loopQ
      same == /\ okInput
              /\ ScalarsOf(pred) = Scalars(e)
              /\ NormModel(pred.out) = NormLog(e.out)
              /\ (ModelErr(pred.out) # "" => e.err = ModelErr(pred.out))
  IN /\ IF same THEN ns' = [ns EXCEPT ![n] = Clear(pred)] /\ NoDiverge
             ELSE ns' = [ns EXCEPT ![n] = Resync(pred, e)] /\ Diverge(e.k)
     /\ Observe(n, e)
     /\ nsteps' = nsteps + 1
     /\ viol' = viol \cup Lim(AvailViol(n, e) \cup CertViol(n, e) \cup CertifiedViol(n, e))
     /\ seen' = [seen EXCEPT ![n] = SeenAfter(n, e)]
     /\ UNCHANGED <<proposals, votes, timeouts, tcs, have, mp>>

TaskStep(e) ==
  LET n == e.node  s0 == ns[n] IN
  /\ CASE e.k = "Proposed" ->
            LET p == [blk |-> B(e.blk), tc |-> e.tc] IN
            /\ IF s0.makeQ # <<>> /\ ProposerMake(s0).loopQ = s0.loopQ \cup {p}
               THEN ns' = [ns EXCEPT ![n] = Clear(ProposerMake(s0))] /\ NoDiverge
               ELSE /\ ns' = [ns EXCEPT ![n] = [s0 EXCEPT !.loopQ = @ \cup {p},
                                                          !.makeQ = IF @ = <<>> THEN @ ELSE Tail(@)]]
                    /\ Diverge("Proposed")
            /\ hist' = [hist EXCEPT ![n].props = @ \cup {p}]
       [] e.k = "SyncResume" ->
            /\ IF \E p \in s0.parked : p.blk = B(e.blk) /\ Par(p.blk) \in s0.stored
               THEN LET p == CHOOSE q \in s0.parked : q.blk = B(e.blk) IN
                    ns' = [ns EXCEPT ![n] = SyncResume(s0, p)] /\ NoDiverge
               ELSE ns' = [ns EXCEPT ![n] = [s0 EXCEPT !.loopQ = @ \cup {q \in s0.parked : q.blk = B(e.blk)},
                                                       !.parked = {q \in @ : q.blk # B(e.blk)}]]
                    /\ Diverge("SyncResume")
            /\ UNCHANGED hist
       [] e.k = "PayloadResume" ->
            /\ IF \E p \in s0.pwait : p.blk = B(e.blk)
               THEN LET p == CHOOSE q \in s0.pwait : q.blk = B(e.blk) IN
                    ns' = [ns EXCEPT ![n] = PayloadResume(s0, p)] /\ NoDiverge
               ELSE UNCHANGED ns /\ Diverge("PayloadResume")
            /\ UNCHANGED hist
       [] OTHER -> UNCHANGED <<ns, hist>> /\ NoDiverge
  /\ nsteps' = nsteps + 1
  /\ UNCHANGED <<proposals, votes, timeouts, tcs, delivered, lst, viol, have, seen, mp>>

\* The properties are the formulas of HotStuff.tla.  They are monotone in the history, so it is enough
\* to evaluate them when a run is complete (the next record is a reset or the end marker).
Check(name, cond) == IF cond THEN {} ELSE {<<name, l>>}
BoundaryViol ==
  Check("C01.Agreement", Agreement) \cup
  Check("C02.DeliveredIsChain", DeliveredIsChain) \cup
  Check("C03.VoteOncePerRound", VoteOncePerRound) \cup
  Check("C03.VoteRoundsIncrease", VoteRoundsIncrease) \cup
  Check("C03.NoVoteAfterTimeout", NoVoteAfterTimeout) \cup
  Check("C03.VoteJustified", VoteJustified) \cup
  Check("C05.CommitNeedsTwoChain", CommitNeedsTwoChain) \cup
  Check("C09.VoteOnlyLeaderBlocks", VoteOnlyLeaderBlocksObs) \cup
  Check("C09.HonestNoEquivocation", HonestNoEquivocation) \cup
  Check("C10.RoundMonotone", RoundMonotone) \cup
  Check("C10.RoundNeedsCertificate", RoundNeedsCertificate) \cup
  Check("C10.TimeoutCarriesHighQC", TimeoutCarriesHighQC) \cup
  \* C12 ("hence ... held by at least f+1 honest nodes"): a real node that acknowledged a batch has it in its store
  Check("C12.AckedBatchIsStored", \A n \in Honest : \A x \in mp[n].acks : (x[1] \in mp[n].own /\ x[2] \in Honest) => x[1] \in have[x[2]])

Reset ==
  /\ viol' = viol \cup Lim(BoundaryViol)
  /\ ns' = [n \in Honest |-> InitNode(n)]
  /\ proposals' = {} /\ votes' = {} /\ timeouts' = {} /\ tcs' = {}
  /\ delivered' = [n \in Honest |-> <<>>]
  /\ hist' = [n \in Honest |-> InitHist]
  /\ lst' = [n \in Honest |-> InitLst]
  /\ have' = [n \in Honest |-> {}]
  /\ seen' = [n \in Honest |-> [votes |-> {}, tos |-> {}, qok |-> {}, qbad |-> {}]]
  /\ mp' = [n \in Honest |-> [own |-> {}, acks |-> {}, rel |-> {}]]
  /\ UNCHANGED <<div, ndiv, nsteps>>

Skip == UNCHANGED <<vars, div, ndiv, lst, nsteps, viol, have, seen, mp>>
End == viol' = viol \cup Lim(BoundaryViol) /\ UNCHANGED <<vars, div, ndiv, lst, nsteps, have, seen, mp>>
\* C12 at system level (full-node runs): a batch this node sealed is handed on (QWRelease) only when its own stake plus the
\* stake of the distinct authorities whose acknowledgement had reached it is a quorum
Stored(e) ==
  /\ have' = [have EXCEPT ![e.node] = @ \cup {e.digest}]
  \* (no ordering is demanded between the store and the release: the creator may legitimately obtain its own batch through
  \* the sync path when a peer proposes it first -- Node.tla shows that run; the sound statement is the one on QWRelease)
  /\ UNCHANGED <<vars, div, ndiv, lst, nsteps, seen, mp, viol>>
MpEvent(e) ==
  LET n == e.node IN
  /\ CASE e.k = "Seal" -> mp' = [mp EXCEPT ![n].own = @ \cup {e.digest}] /\ UNCHANGED viol
       [] e.k = "BatchAck" -> mp' = [mp EXCEPT ![n].acks = @ \cup {<<e.digest, e.by>>}] /\ UNCHANGED viol
       [] e.k = "QWRelease" ->
            LET ackers == {a \in Node : <<e.digest, a>> \in mp[n].acks} \ {n} IN
            /\ mp' = [mp EXCEPT ![n].rel = @ \cup {e.digest}]
            /\ viol' = IF Stake[n] + SumStake(ackers) >= Quorum THEN viol ELSE viol \cup {<<"C12.ReleasedWithQuorumOfAcks", l>>}
  /\ UNCHANGED <<vars, div, ndiv, lst, nsteps, have, seen>>

\* The receiver's side of the reliable sender's contract (ReliableSender.tla pairs the k-th reply with the k-th frame written): per connection into
\* a real node, one reply for every frame that must be acknowledged (every mempool frame, every Propose), none for the others.  The last
\* acknowledgement may still be in flight when the run ends.
NetEvent(e) ==
  /\ viol' = viol \cup Lim(IF e.k = "ConnTotals" /\ (e.replies > e.ackable \/ e.ackable - e.replies > 1)
                           THEN {<<(IF e.port = "mempool" THEN "C12.ReceiverAcksEachFrameOnce" ELSE "C06.ReceiverAcksEachProposalOnce"), l>>} ELSE {})
  /\ UNCHANGED <<vars, div, ndiv, lst, nsteps, have, seen, mp>>

\* C02 is about what reaches the application: the blocks read from the node's commit channel (by the harness, between handler runs) are exactly
\* the blocks the core committed, in that order (the Commit hook fires before the hand-over)
ChannelCheck(e) ==
  /\ viol' = viol \cup Lim(IF e.node \in Honest /\ [i \in 1..Len(e.blocks) |-> B(e.blocks[i])] # delivered[e.node]
                           THEN {<<"C02.ChannelDeliversEveryCommit", l>>} ELSE {})
  /\ UNCHANGED <<vars, div, ndiv, lst, nsteps, have, seen, mp>>

\* C05 ("certified") for the node's own proposals, which loop back into process_block without passing Block::verify: a proposal the node broadcast
\* with a QC that is neither the genesis QC nor a verifying certificate (judged by the harness on the wire) must not be what triggers a commit
OwnBadCheck(e) ==
  /\ viol' = viol \cup Lim(IF e.node \in Honest /\ \E i \in 1..Len(hist[e.node].commits) : hist[e.node].commits[i].by = B(e.blk)
                           THEN {<<"C05.CommitTriggeredByCertifiedBlock", l>>} ELSE {})
  /\ UNCHANGED <<vars, div, ndiv, lst, nsteps, have, seen, mp>>

TNext ==
  /\ l <= Len(Rec)
  /\ l' = l + 1
  /\ LET e == Rec[l] IN
       CASE e.t = "reset" -> Reset
         [] e.t = "end" -> End
         [] e.t = "core" /\ e.node \in Honest -> CoreStep(e)
         [] e.t = "task" /\ e.node \in Honest -> TaskStep(e)
         [] e.t = "net" -> NetEvent(e)
         [] e.t = "rig" /\ e.k = "CommitChannel" -> ChannelCheck(e)
         [] e.t = "rig" /\ e.k = "OwnProposalBadQC" -> OwnBadCheck(e)
         [] e.t = "mp" /\ e.k = "BatchStored" /\ e.node \in Honest -> Stored(e)
         [] e.t = "mp" /\ e.k \in {"Seal", "BatchAck", "QWRelease"} /\ e.node \in Honest -> MpEvent(e)
         [] OTHER -> Skip

TSpec == TInit /\ [][TNext]_tvars

-----------------------------------------------------------------------------
\* acceptance: every record consumed; the last state prints the verdicts for the driver
Accepted ==
  /\ PrintT(<<"TRACE", "records", Len(Rec), "consumed", TLCGet("stats").diameter - 1>>)
  /\ TLCGet("stats").diameter - 1 = Len(Rec)
Report == l <= Len(Rec) \/ PrintT(<<"REPORT", ToJson([ndiv |-> ndiv, div |-> div, steps |-> nsteps, viol |-> viol])>>)
DictOK == \A id \in DOMAIN BInfo : BInfo[id].id = id
=============================================================================
