---- MODULE TraceHostile ----
EXTENDS Hostile, Json, IOUtils
Rec == ndJsonDeserialize(IOEnv.TRACE)
VARIABLES l, viol, nsteps, covered
tvars == <<l, viol, nsteps, covered>>
TInit == l = 1 /\ viol = {} /\ nsteps = 0 /\ covered = {}
V(ok, name) == IF ok THEN {} ELSE {<<name, l>>}
TNext ==
  /\ l <= Len(Rec) /\ l' = l + 1
  /\ LET e == Rec[l] IN
       CASE e.t = "hostile" -> /\ viol' = viol \cup V(e.panics = 0, "C15.NoPanic")
                               /\ covered' = covered \cup {<<e.class, e.port>>} /\ nsteps' = nsteps + 1
         [] e.t = "probe"   -> viol' = viol \cup V(e.ok, "C15.ServiceStillUp") /\ nsteps' = nsteps + 1 /\ UNCHANGED covered
         [] e.t = "decode"  -> viol' = viol \cup V(~e.panicked, "C15.DecodingIsTotal") /\ nsteps' = nsteps + 1 /\ UNCHANGED covered
         [] e.t = "end"     -> viol' = viol \cup V(Matrix \subseteq covered, "C15.MatrixCovered") /\ UNCHANGED <<nsteps, covered>>
         [] OTHER -> UNCHANGED <<viol, nsteps, covered>>
TSpec == TInit /\ [][TNext]_tvars
Accepted ==
  /\ PrintT(<<"TRACE", "records", Len(Rec), "consumed", TLCGet("stats").diameter - 1>>)
  /\ TLCGet("stats").diameter - 1 = Len(Rec)
Report == l <= Len(Rec) \/ PrintT(<<"REPORT", ToJson([ndiv |-> 0, div |-> <<>>, steps |-> nsteps, viol |-> viol])>>)
====
