---- MODULE TraceProposer ----
(* What the real Proposer task created (payload of every block, in order) under a TLC-generated schedule of digests, commands and
   peer ACKs (harness = mempool, core and the peers' receivers), replayed through Proposer.tla.
   Divergence: the sequence of payloads differs from the model's.  Monitors on the observed history: a digest handed over once is
   never in two blocks (C13), nothing handed over and not cleaned up is missing from the next block once the task is idle (C13),
   and a Make issued while the last block has a quorum of acknowledgements (own stake included) is served (C06). *)
EXTENDS Proposer, Json, IOUtils
Rec == ndJsonDeserialize(IOEnv.TRACE)
ToSet(q) == {q[i] : i \in 1..Len(q)}
TrOthers == 1..(Len(Rec[1].stakes) - 1)
TrStake  == [i \in 0..(Len(Rec[1].stakes) - 1) |-> Rec[1].stakes[i + 1]]
VARIABLES l, viol, nsteps, ndiv, div,
          hsent, hclean,   \* observed: digests handed over / named in a Cleanup
          hmakes, hacks    \* observed: Make commands issued; [block -> peers that acknowledged its frame]
tvars == <<vars, l, viol, nsteps, ndiv, div, hsent, hclean, hmakes, hacks>>
TInit == Init /\ l = 1 /\ viol = {} /\ nsteps = 0 /\ ndiv = 0 /\ div = <<>> /\ hsent = {} /\ hclean = {} /\ hmakes = 0
         /\ hacks = [i \in 1..NMakes |-> {}]
IntEnabled == ~waiting /\ (dq # <<>> \/ cq # <<>>)
\* the report keeps the first 60 monitor failures (a set that grows with every record makes every later state larger)
Lim(S) == IF Cardinality(viol) >= 60 THEN {} ELSE S

\* the replayed schedules never have both channels non-empty when the task is ready, so the order of internal steps is determinate
Internal == (TakeDigest \/ TakeCommand) /\ UNCHANGED <<l, viol, nsteps, ndiv, div, hsent, hclean, hmakes, hacks>>
Payloads(e) == [i \in 1..Len(e.made) |-> ToSet(e.made[i])]
Check(e) ==
  LET P == Payloads(e)
      k == Len(P)
      dbl == \E i, j \in 1..k : i # j /\ P[i] \cap P[j] # {}
      \* every Make issued so far is served when each earlier block has its quorum of real acknowledgements
      served == \A i \in 1..hmakes : (\A j \in 1..(i - 1) : j <= NMakes /\ Stake[Me] + Sum(hacks[j]) >= Quorum) => k >= i
      \* the task is idle and everything issued was served: nothing handed over may be missing
  IN (IF dbl THEN {<<"C13.DigestProposedTwice", l>>} ELSE {})
     \cup (IF ~served THEN {<<"C06.MakeNotServedDespiteQuorum", l>>} ELSE {})
     \cup (IF "panic" \in DOMAIN e THEN {<<"C13.ProposerPanicked", l>>} ELSE {})
TNext ==
  \/ /\ l <= Len(Rec) /\ IntEnabled /\ Internal
  \/ /\ l <= Len(Rec) /\ ~IntEnabled /\ l' = l + 1
     /\ LET e == Rec[l] IN
          CASE e.t = "reset" -> /\ buffer' = {} /\ dq' = <<>> /\ cq' = <<>> /\ made' = <<>> /\ waiting' = FALSE /\ acks' = [i \in 1..NMakes |-> {}]
                                /\ hsent' = {} /\ hclean' = {} /\ hmakes' = 0 /\ hacks' = [i \in 1..NMakes |-> {}]
                                /\ UNCHANGED <<viol, nsteps, ndiv, div>>
            [] e.t = "pr" /\ e.ev = "digest" -> SendDigest(e.d) /\ hsent' = hsent \cup {e.d} /\ UNCHANGED <<viol, ndiv, div, hclean, hmakes, hacks>> /\ nsteps' = nsteps + 1
            [] e.t = "pr" /\ e.ev = "make" -> /\ cq' = Append(cq, [k |-> "make"]) /\ UNCHANGED <<buffer, dq, made, waiting, acks>>
                                              /\ hmakes' = hmakes + 1 /\ UNCHANGED <<viol, ndiv, div, hsent, hclean, hacks>> /\ nsteps' = nsteps + 1
            [] e.t = "pr" /\ e.ev = "cleanup" -> SendCleanup(ToSet(e.ds)) /\ hclean' = hclean \cup ToSet(e.ds) /\ UNCHANGED <<viol, ndiv, div, hsent, hmakes, hacks>> /\ nsteps' = nsteps + 1
            [] e.t = "pr" /\ e.ev = "ack" ->      \* e.b: the block whose frame the harness acknowledged for peer e.p (0: nothing to acknowledge)
                 /\ IF e.b = 0 \/ Unacked(e.p) = {} THEN UNCHANGED vars ELSE PeerAck(e.p)
                 /\ hacks' = IF e.b \in 1..NMakes THEN [hacks EXCEPT ![e.b] = @ \cup {e.p}] ELSE hacks
                 /\ UNCHANGED <<viol, ndiv, div, hsent, hclean, hmakes>> /\ nsteps' = nsteps + 1
            [] e.t = "pr" /\ e.ev = "observed" ->
                 LET P == Payloads(e) IN
                 /\ viol' = viol \cup Lim(Check(e))
                 /\ ndiv' = IF P = made THEN ndiv ELSE ndiv + 1
                 /\ div' = IF P = made \/ Len(div) >= 10 THEN div ELSE Append(div, [rec |-> l, kind |-> "made", want |-> made, got |-> P])
                 /\ UNCHANGED <<vars, hsent, hclean, hmakes, hacks>> /\ nsteps' = nsteps + 1
            [] e.t = "pr" /\ e.ev = "final" ->   \* after the flush (everything acknowledged, one more Make served): nothing handed over is missing
                 LET P == Payloads(e)
                     lost == {d \in hsent : d \notin hclean /\ ~\E i \in 1..Len(P) : d \in P[i]} IN
                 /\ viol' = viol \cup Lim(IF lost # {} /\ Len(P) = hmakes THEN {<<"C13.HandedOverDigestNeverProposed", l>>} ELSE {})
                 /\ UNCHANGED <<vars, ndiv, div, nsteps, hsent, hclean, hmakes, hacks>>
            [] OTHER -> UNCHANGED <<vars, viol, nsteps, ndiv, div, hsent, hclean, hmakes, hacks>>
TSpec == TInit /\ [][TNext]_tvars
Accepted == TLCGet("stats").diameter >= 1
Report == l <= Len(Rec) \/ PrintT(<<"REPORT", ToJson([ndiv |-> ndiv, div |-> div, steps |-> nsteps, viol |-> viol, consumed |-> l - 1, records |-> Len(Rec)])>>)
SpecInvs == NoDoubleInclusion /\ WaitsForQuorum /\ Drained
====
