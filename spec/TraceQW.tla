---- MODULE TraceQW ----
(* What the real QuorumWaiter forwarded under a TLC-generated schedule of submissions and acknowledgements,
   replayed through QuorumWaiter.tla (the waiter's own steps run to completion after every move). *)
EXTENDS QuorumWaiter, Json, IOUtils
Rec == ndJsonDeserialize(IOEnv.TRACE)
TrOthers == 1..(Len(Rec[1].stakes) - 1)
TrStake  == [i \in 0..(Len(Rec[1].stakes) - 1) |-> Rec[1].stakes[i + 1]]
VARIABLES l, viol, nsteps
tvars == <<vars, l, viol, nsteps>>
TInit == Init /\ l = 1 /\ viol = {} /\ nsteps = 0
IntEnabled == (head = 0 /\ NextUnreleased <= submitted) \/ (head # 0 /\ acked[head] \ counted # {})
TNext ==
  \/ /\ l <= Len(Rec) /\ IntEnabled /\ (Take \/ Count) /\ UNCHANGED <<l, viol, nsteps>>
  \/ /\ l <= Len(Rec) /\ ~IntEnabled /\ l' = l + 1
     /\ LET e == Rec[l] IN
          CASE e.t = "reset" -> /\ submitted' = 0 /\ acked' = [b \in 1..NBatches |-> {}] /\ counted' = {} /\ head' = 0 /\ released' = <<>>
                                /\ UNCHANGED <<viol, nsteps>>
            [] e.t = "qw" /\ e.ev = "submit" -> Submit /\ UNCHANGED viol /\ nsteps' = nsteps + 1
            [] e.t = "qw" /\ e.ev = "ack" -> Ack(e.b, e.p) /\ UNCHANGED viol /\ nsteps' = nsteps + 1
            [] e.t = "qw" /\ e.ev = "observed" ->   \* batches forwarded so far by the real waiter
                 /\ viol' = IF e.released = released THEN viol
                            ELSE viol \cup {<<IF Len(e.released) > Len(released) THEN "C12.ReleasedWithoutQuorum" ELSE "C12.HeldBackDespiteQuorum", l>>}
                 /\ UNCHANGED vars /\ nsteps' = nsteps + 1
            [] OTHER -> UNCHANGED <<vars, viol, nsteps>>
TSpec == TInit /\ [][TNext]_tvars
Accepted == TLCGet("stats").diameter >= 1
Report == l <= Len(Rec) \/ PrintT(<<"REPORT", ToJson([ndiv |-> 0, div |-> <<>>, steps |-> nsteps, viol |-> viol, consumed |-> l - 1, records |-> Len(Rec)])>>)
SpecInvs == ReleasedHaveQuorum /\ ReleasedInOrder
====
