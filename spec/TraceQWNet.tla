---- MODULE TraceQWNet ----
(* What the real BatchMaker -> ReliableSender -> QuorumWaiter chain released under a TLC-generated schedule of seals and peer
   ACKs (harness = the three peers over the in-memory transport; it knows which batch every frame it answered carried),
   replayed through QWNet.tla.  Divergence: the released sequence differs from the model's.  Monitor (C12): a batch is
   released only when the peers that REALLY answered the frame carrying it, plus the node, hold a quorum of the stake. *)
EXTENDS QWNet, Json, IOUtils
Rec == ndJsonDeserialize(IOEnv.TRACE)
TrOthers == 1..(Len(Rec[1].stakes) - 1)
TrStake  == [i \in 0..(Len(Rec[1].stakes) - 1) |-> Rec[1].stakes[i + 1]]
TrDown   == IF "down" \in DOMAIN Rec[1] THEN {Rec[1].down[i] : i \in 1..Len(Rec[1].down)} ELSE {}
VARIABLES l, viol, nsteps, ndiv, div,
          racked     \* observed ground truth: [batch -> peers whose ACK answered the frame carrying it]
tvars == <<vars, l, viol, nsteps, ndiv, div, racked>>
TInit == Init /\ l = 1 /\ viol = {} /\ nsteps = 0 /\ ndiv = 0 /\ div = <<>> /\ racked = [b \in 1..NBatches |-> {}]
\* the report keeps the first 60 monitor failures (a set that grows with every record makes every later state larger)
Lim(S) == IF Cardinality(viol) >= 60 THEN {} ELSE S

IntEnabled == (head = 0 /\ NextUnreleased <= sealed) \/ (head # 0 /\ {x \in Others : <<head, x>> \in done} \ counted # {})
TNext ==
  \/ /\ l <= Len(Rec) /\ IntEnabled /\ (Take \/ Count) /\ UNCHANGED <<l, viol, nsteps, ndiv, div, racked>>
  \/ /\ l <= Len(Rec) /\ ~IntEnabled /\ l' = l + 1
     /\ LET e == Rec[l] IN
          CASE e.t = "reset" -> /\ sealed' = 0 /\ wire' = [p \in Others |-> <<>>] /\ pend' = [p \in Others |-> <<>>]
                                /\ open' = {} /\ done' = {} /\ acked' = [b \in 1..NBatches |-> {}]
                                /\ head' = 0 /\ counted' = {} /\ released' = <<>>
                                /\ racked' = [b \in 1..NBatches |-> {}] /\ UNCHANGED <<viol, nsteps, ndiv, div>>
            [] e.t = "qn" /\ e.ev = "seal" -> Seal /\ UNCHANGED <<viol, ndiv, div, racked>> /\ nsteps' = nsteps + 1
            [] e.t = "qn" /\ e.ev = "ack" ->    \* e.b: the batch carried by the frame the harness answered (0: nothing to answer)
                 /\ IF e.b = 0 THEN UNCHANGED vars ELSE Ack(e.p)
                 /\ racked' = IF e.b = 0 THEN racked ELSE [racked EXCEPT ![e.b] = @ \cup {e.p}]
                 /\ UNCHANGED <<viol, ndiv, div>> /\ nsteps' = nsteps + 1
            [] e.t = "qn" /\ e.ev = "observed" ->
                 LET r == e.released
                     bad == {i \in 1..Len(r) : r[i] \notin 1..NBatches \/ Stake[Me] + Sum(racked[r[i]]) < Quorum} IN
                 /\ viol' = viol \cup Lim(IF bad = {} THEN {} ELSE {<<"C12.ReleasedWithQuorumOfAcks", l>>})
                                 \cup Lim(IF "panic" \in DOMAIN e THEN {<<"C12.Panicked", l>>} ELSE {})
                 /\ ndiv' = IF r = released THEN ndiv ELSE ndiv + 1
                 /\ div' = IF r = released \/ Len(div) >= 10 THEN div ELSE Append(div, [rec |-> l, kind |-> "release", want |-> released, got |-> r])
                 /\ UNCHANGED <<vars, racked>> /\ nsteps' = nsteps + 1
            [] OTHER -> UNCHANGED <<vars, viol, nsteps, ndiv, div, racked>>
TSpec == TInit /\ [][TNext]_tvars
Accepted == TLCGet("stats").diameter >= 1
Report == l <= Len(Rec) \/ PrintT(<<"REPORT", ToJson([ndiv |-> ndiv, div |-> div, steps |-> nsteps, viol |-> viol, consumed |-> l - 1, records |-> Len(Rec)])>>)
SpecInvs == ReleasedWithQuorumOfAcks /\ ReleasedInOrder /\ PairingAligned /\ UnreachableQuorumBlocks
====
