---- MODULE TraceRS ----
(* C14 monitors evaluated by TLC on what the real network::ReliableSender did under a TLC-generated schedule of caller,
   peer, network and timer moves (harness = peer over the in-memory transport; every reply carries the id of the frame
   it answers, so pairing is observable). *)
EXTENDS Integers, Sequences, FiniteSets, TLC, Json, IOUtils
Rec == ndJsonDeserialize(IOEnv.TRACE)
VARIABLES l, viol, nsteps,
          seen,        \* message ids that reached the peer, in order of first arrival
          cancelledAt, \* id -> number of connections opened when the handle was dropped
          nconn,       \* connections opened so far
          state        \* id -> "open" | "cancelled" | "resolved"
tvars == <<l, viol, nsteps, seen, cancelledAt, nconn, state>>
Empty == [x \in {} |-> 0]
TInit == l = 1 /\ viol = {} /\ nsteps = 0 /\ seen = <<>> /\ cancelledAt = Empty /\ nconn = 0 /\ state = Empty
Put(f, k, v) == [x \in DOMAIN f \cup {k} |-> IF x = k THEN v ELSE f[x]]
InSeq(q, x) == \E i \in 1..Len(q) : q[i] = x
V(name) == viol' = viol \cup {<<name, l>>}
Step(e) ==
  CASE e.ev = "send"   -> state' = Put(state, e.id, "open") /\ UNCHANGED <<viol, seen, cancelledAt, nconn>>
    [] e.ev = "cancel" -> /\ state' = Put(state, e.id, "cancelled") /\ cancelledAt' = Put(cancelledAt, e.id, nconn)
                          /\ UNCHANGED <<viol, seen, nconn>>
    [] e.ev = "conn_open" -> nconn' = nconn + 1 /\ UNCHANGED <<viol, seen, cancelledAt, state>>
    [] e.ev = "frame" ->
          /\ seen' = IF InSeq(seen, e.id) THEN seen ELSE Append(seen, e.id)
          /\ IF e.id \in DOMAIN cancelledAt /\ e.c > cancelledAt[e.id] THEN V("C14.NoResendAfterCancel")
             ELSE IF ~InSeq(seen, e.id) /\ \E i \in 1..Len(seen) : seen[i] > e.id THEN V("C14.FirstDeliveriesInOrder")
             ELSE UNCHANGED viol
          /\ UNCHANGED <<cancelledAt, nconn, state>>
    [] e.ev = "resolved" ->
          /\ state' = Put(state, e.id, "resolved")
          /\ IF e.ack_id # e.id THEN V("C14.AckPairedWithItsMessage")
             ELSE IF ~InSeq(seen, e.id) THEN V("C14.ResolvedBeforeDelivery")
             ELSE UNCHANGED viol
          /\ UNCHANGED <<seen, cancelledAt, nconn>>
    [] e.ev = "final" ->     \* after the stabilisation phase: every kept handle is resolved and was delivered
          /\ IF \A i \in DOMAIN state : state[i] = "open" => FALSE THEN UNCHANGED viol ELSE V("C14.KeptHandleEventuallyResolved")
          /\ UNCHANGED <<seen, cancelledAt, nconn, state>>
    [] e.ev = "panic" -> V("C14.Panicked") /\ UNCHANGED <<seen, cancelledAt, nconn, state>>
    [] OTHER -> UNCHANGED <<viol, seen, cancelledAt, nconn, state>>
TNext ==
  /\ l <= Len(Rec) /\ l' = l + 1
  /\ LET e == Rec[l] IN
       IF e.t = "rs" THEN Step(e) /\ nsteps' = nsteps + 1
       ELSE IF e.t = "reset" THEN /\ seen' = <<>> /\ cancelledAt' = Empty /\ nconn' = 0 /\ state' = Empty /\ UNCHANGED <<viol, nsteps>>
       ELSE UNCHANGED <<viol, nsteps, seen, cancelledAt, nconn, state>>
TSpec == TInit /\ [][TNext]_tvars
Accepted ==
  /\ PrintT(<<"TRACE", "records", Len(Rec), "consumed", TLCGet("stats").diameter - 1>>)
  /\ TLCGet("stats").diameter - 1 = Len(Rec)
Report == l <= Len(Rec) \/ PrintT(<<"REPORT", ToJson([ndiv |-> 0, div |-> <<>>, steps |-> nsteps, viol |-> viol])>>)
====
