------------------------------ MODULE TraceStore ------------------------------
(* Trace validation for the Store: commands were enqueued on the real store in the recorded order (first poll
   of each call), "drain" lets the store task run; the recorded responses must be those of Store.tla. *)
EXTENDS Store, Json, IOUtils
Rec == ndJsonDeserialize(IOEnv.TRACE)
VARIABLES l, viol, nsteps
tvars == <<vars, l, viol, nsteps>>
TInit == Init /\ l = 1 /\ viol = {} /\ nsteps = 0

RespOK(e) == Len(e.resp) = Len(resp) /\ \A i \in 1..Len(resp) : e.resp[i] = resp[i]
\* after a reopen every key still has its last written value (keys 1..4 are read back)
ReopenOK(e) == \A k \in 1..Len(e.resp) : e.resp[k] = (IF k \in Keys THEN db[k] ELSE None)

TNext ==
  \/ /\ l <= Len(Rec) /\ Rec[l].t = "store" /\ Rec[l].op = "drain" /\ cmdQ # <<>> /\ ~(Len(Rec[l].resp) = 1 /\ Rec[l].resp[1] = -99)
     /\ Apply /\ UNCHANGED <<l, viol, nsteps>>
  \/ /\ l <= Len(Rec) /\ l' = l + 1
     /\ LET e == Rec[l] IN
          CASE e.t = "reset" -> /\ cmdQ' = <<>> /\ db' = [k \in Keys |-> None] /\ obl' = [k \in Keys |-> <<>>]
                                /\ resp' = <<>> /\ log' = <<>> /\ applied' = 0 /\ UNCHANGED <<viol, nsteps>>
            [] e.t = "store" /\ e.op = "write"  -> WriteR(e.h, e.key, e.val) /\ UNCHANGED viol /\ nsteps' = nsteps + 1
            [] e.t = "store" /\ e.op = "read"   -> Read(e.h, e.key) /\ UNCHANGED viol /\ nsteps' = nsteps + 1
            [] e.t = "store" /\ e.op = "notify" -> NotifyRead(e.h, e.key) /\ UNCHANGED viol /\ nsteps' = nsteps + 1
            [] e.t = "store" /\ e.op = "drain" /\ Len(e.resp) = 1 /\ e.resp[1] = -99 ->    \* the store or its client code panicked
                 /\ viol' = viol \cup {<<"C16.Panicked", l>>} /\ UNCHANGED vars /\ nsteps' = nsteps + 1
            [] e.t = "store" /\ e.op = "drain"  ->
                 /\ cmdQ = <<>>
                 /\ viol' = IF RespOK(e) THEN viol ELSE viol \cup {<<"C16.ResponsesMatchSpec", l>>}
                 /\ UNCHANGED vars /\ nsteps' = nsteps + 1
            [] e.t = "store" /\ e.op = "reopen" ->
                 /\ viol' = IF ReopenOK(e) THEN viol ELSE viol \cup {<<"C16.DataSurvivesReopen", l>>}
                 /\ UNCHANGED vars /\ nsteps' = nsteps + 1
            [] OTHER -> UNCHANGED <<vars, viol, nsteps>>
TSpec == TInit /\ [][TNext]_tvars
\* silent Apply steps do not consume a record: acceptance is "the last record was consumed"
Accepted == TLCGet("stats").diameter >= 1
Report == l <= Len(Rec) \/ PrintT(<<"REPORT", ToJson([ndiv |-> 0, div |-> <<>>, steps |-> nsteps, viol |-> viol, consumed |-> l - 1, records |-> Len(Rec)])>>)
\* the specification's own invariants, evaluated along the real execution
SpecInvs == ReadSeesLatest /\ WritesInOrder /\ NotifyNeverMisses /\ ObligationsOnlyForMissing
=============================================================================
