---- MODULE TraceVerify ----
(* The verdicts of the real verify() functions on concrete instances of the matrix cases, and what a running node
   did when the message was injected, checked against Verify.tla. *)
EXTENDS Verify, Json, IOUtils
Rec == ndJsonDeserialize(IOEnv.TRACE)
TrN == Len(Rec[1].stakes)
TrStake == [k \in 0..(TrN - 1) |-> Rec[1].stakes[k + 1]]
VARIABLES l, viol, nsteps
tvars == <<l, viol, nsteps>>
TInit == l = 1 /\ viol = {} /\ nsteps = 0
Checks(e) ==
  (IF e.accepted = Verdict(e.c) THEN {} ELSE {<<"C04.VerdictMatchesSpec", l>>}) \cup
  (IF e.panicked THEN {<<"C04.VerifyPanicked", l>>} ELSE {}) \cup
  (IF (~Verdict(e.c) /\ e.injected) => (~e.node_changed /\ e.node_effects = 0 /\ e.node_frames = 0 /\ ~e.counted) THEN {} ELSE {<<"C04.RejectedLeavesNodeUnchanged", l>>})
TNext ==
  /\ l <= Len(Rec) /\ l' = l + 1
  /\ LET e == Rec[l] IN
       IF e.t = "verify" THEN viol' = viol \cup Checks(e) /\ nsteps' = nsteps + 1
       \* the same valid vote (timeout) delivered three times plus one other member's stays below the quorum of distinct signers
       ELSE IF e.t = "replay" THEN viol' = viol \cup (IF e.counted THEN {<<"C04.ReplayedMessageCountsOnce", l>>} ELSE {}) /\ nsteps' = nsteps + 1
       ELSE UNCHANGED <<viol, nsteps>>
TSpec == TInit /\ [][TNext]_tvars
Accepted ==
  /\ PrintT(<<"TRACE", "records", Len(Rec), "consumed", TLCGet("stats").diameter - 1>>)
  /\ TLCGet("stats").diameter - 1 = Len(Rec)
Report == l <= Len(Rec) \/ PrintT(<<"REPORT", ToJson([ndiv |-> 0, div |-> <<>>, steps |-> nsteps, viol |-> viol])>>)
====
