------------------------------- MODULE Verify -------------------------------
(***************************************************************************)
(* Which protocol messages verify (consensus/src/messages.rs verify()      *)
(* functions over crypto::Signature), with ideal signatures: a signature   *)
(* is the record of WHAT was signed and WITH WHICH key.  The module        *)
(* defines validity and enumerates a mutation matrix -- every way of        *)
(* altering a signed field, transplanting a signature across author,       *)
(* round, block or message kind, repeating a signer, using a non-member or *)
(* a zero-stake member, or dropping below the quorum -- together with the  *)
(* verdict.  The harness instantiates each case with real keys and calls   *)
(* the real verify(); TLC compares the verdicts (TraceVerify.tla).         *)
(***************************************************************************)
EXTENDS Integers, Sequences, FiniteSets, TLC

CONSTANTS NMembers,      \* committee members are keys 0..NMembers-1; keys NMembers, NMembers+1 are outsiders
          Stake          \* [0..NMembers-1 -> Nat]   (0 = a member without voting rights)

Members   == 0..(NMembers - 1)
Outsiders == {NMembers, NMembers + 1}
Keys      == Members \cup Outsiders
RECURSIVE Sum(_)
Sum(S) == IF S = {} THEN 0 ELSE LET x == CHOOSE y \in S : TRUE IN Stake[x] + Sum(S \ {x})
Quorum == (2 * Sum(Members)) \div 3 + 1
StakeOf(k) == IF k \in Members THEN Stake[k] ELSE 0

\* ---- ideal signatures ---------------------------------------------------------------------------------
\* kind "vote": content <<block, round>>      (Vote::digest = QC::digest = H(hash || round))
\* kind "timeout": content <<round, hqr>>     (Timeout::digest = H(round || high_qc.round))
\* kind "block": content <<author, round, payload, parent block>>
\* "flip": a correct signature with one bit flipped; "garbage": 64 arbitrary bytes
Sig(k, kind, content) == [key |-> k, kind |-> kind, content |-> content, ok |-> TRUE]
Flip(s) == [s EXCEPT !.ok = FALSE]
SigOK(s, k, kind, content) == s.ok /\ s.key = k /\ s.kind = kind /\ s.content = content

GenesisQC == [blk |-> 0, round |-> 0, votes |-> <<>>]
IsGenesisQC(q) == q.blk = 0 /\ q.round = 0          \* PartialEq of QC compares hash and round only
NoTC == [round |-> -1, entries |-> <<>>]

SeqSet(q) == {q[i] : i \in 1..Len(q)}
Signers(votes) == [i \in 1..Len(votes) |-> votes[i].signer]

\* messages.rs:180 QC::verify
QCValid(q) ==
  /\ Cardinality(SeqSet(Signers(q.votes))) = Len(q.votes)                 \* AuthorityReuse
  /\ \A i \in 1..Len(q.votes) : StakeOf(q.votes[i].signer) > 0             \* UnknownAuthority
  /\ Sum(SeqSet(Signers(q.votes)) \cap Members) >= Quorum                  \* QCRequiresQuorum
  /\ \A i \in 1..Len(q.votes) : SigOK(q.votes[i].sig, q.votes[i].signer, "vote", <<q.blk, q.round>>)
\* messages.rs:136 Vote::verify
VoteValid(v) == StakeOf(v.author) > 0 /\ SigOK(v.sig, v.author, "vote", <<v.blk, v.round>>)
\* messages.rs:290 TC::verify
TCValid(t) ==
  /\ Cardinality(SeqSet(Signers(t.entries))) = Len(t.entries)
  /\ \A i \in 1..Len(t.entries) : StakeOf(t.entries[i].signer) > 0
  /\ Sum(SeqSet(Signers(t.entries)) \cap Members) >= Quorum
  /\ \A i \in 1..Len(t.entries) : SigOK(t.entries[i].sig, t.entries[i].signer, "timeout", <<t.round, t.entries[i].hqr>>)
\* messages.rs:250 Timeout::verify
TimeoutValid(t) ==
  /\ StakeOf(t.author) > 0
  /\ SigOK(t.sig, t.author, "timeout", <<t.round, t.hq.round>>)
  /\ (IsGenesisQC(t.hq) \/ QCValid(t.hq))
\* messages.rs:55 Block::verify
BlockValid(b) ==
  /\ StakeOf(b.author) > 0
  /\ SigOK(b.sig, b.author, "block", <<b.author, b.round, b.payload, b.parent.blk>>)
  /\ (IsGenesisQC(b.parent) \/ QCValid(b.parent))
  /\ (b.tc = NoTC \/ TCValid(b.tc))

\* ---- the mutation matrix ---------------------------------------------------------------------------------
SortedSeq(S) == LET RECURSIVE F(_) F(T) == IF T = {} THEN <<>> ELSE LET m == CHOOSE x \in T : \A y \in T : x <= y IN <<m>> \o F(T \ {m}) IN F(S)
GoodVotes(S, blk, round) == LET q == SortedSeq(S) IN [i \in 1..Len(q) |-> [signer |-> q[i], sig |-> Sig(q[i], "vote", <<blk, round>>)]]
GoodEntries(S, round, H) == LET q == SortedSeq(S) IN [i \in 1..Len(q) |-> [signer |-> q[i], hqr |-> H[q[i]], sig |-> Sig(q[i], "timeout", <<round, H[q[i]]>>)]]
SignerSets == (SUBSET Members) \ {{}}
Other(k) == (k + 1) % NMembers

\* what can be done to ONE signature attached to content `c` of kind `kind` by signer k
SigMuts(k, kind, c) ==
  { [m |-> "none",        sig |-> Sig(k, kind, c)],
    [m |-> "other_key",   sig |-> Sig(Other(k), kind, c)],
    [m |-> "outsider_key",sig |-> Sig(NMembers, kind, c)],
    [m |-> "other_a",     sig |-> Sig(k, kind, <<c[1] + 1>> \o Tail(c))],
    [m |-> "other_b",     sig |-> Sig(k, kind, <<c[1], c[2] + 1>> \o Tail(Tail(c)))],
    [m |-> "other_kind",  sig |-> Sig(k, IF kind = "vote" THEN "timeout" ELSE "vote", <<c[1], c[2]>>)],
    [m |-> "bitflip",     sig |-> Flip(Sig(k, kind, c))] }

QCCases(blk, round) ==
  \* every signer set, untouched
  { [kind |-> "qc", m |-> "signers", obj |-> [blk |-> blk, round |-> round, votes |-> GoodVotes(S, blk, round)]] : S \in SignerSets } \cup
  \* one signature of a quorum set mutated
  UNION { { [kind |-> "qc", m |-> x.m, obj |-> [blk |-> blk, round |-> round,
                votes |-> [GoodVotes(S, blk, round) EXCEPT ![p].sig = x.sig]]] : x \in SigMuts(SortedSeq(S)[p], "vote", <<blk, round>>) }
          : S \in {T \in SignerSets : Sum(T) >= Quorum}, p \in {1, 2} } \cup
  \* a signer repeated, an outsider or every member added, the certificate's own fields altered under unchanged signatures
  UNION { { [kind |-> "qc", m |-> "repeat_first", obj |-> [blk |-> blk, round |-> round, votes |-> Append(GoodVotes(S, blk, round), GoodVotes(S, blk, round)[1])]],
            [kind |-> "qc", m |-> "plus_outsider", obj |-> [blk |-> blk, round |-> round,
                 votes |-> Append(GoodVotes(S, blk, round), [signer |-> NMembers, sig |-> Sig(NMembers, "vote", <<blk, round>>)])]],
            [kind |-> "qc", m |-> "round_altered", obj |-> [blk |-> blk, round |-> round + 1, votes |-> GoodVotes(S, blk, round)]],
            [kind |-> "qc", m |-> "block_altered", obj |-> [blk |-> blk + 1, round |-> round, votes |-> GoodVotes(S, blk, round)]] }
          : S \in SignerSets }

VoteCases(blk, round) ==
  UNION { { [kind |-> "vote", m |-> x.m, obj |-> [blk |-> blk, round |-> round, author |-> k, sig |-> x.sig]] : x \in SigMuts(k, "vote", <<blk, round>>) } : k \in Keys } \cup
  { [kind |-> "vote", m |-> "author_swapped", obj |-> [blk |-> blk, round |-> round, author |-> Other(k), sig |-> Sig(k, "vote", <<blk, round>>)]] : k \in Members }

HQR0 == [k \in Members |-> 0]
TCCases(round) ==
  { [kind |-> "tc", m |-> "signers", obj |-> [round |-> round, entries |-> GoodEntries(S, round, H)]]
       : S \in SignerSets, H \in {HQR0, [k \in Members |-> k % 2], [k \in Members |-> round - 1]} } \cup
  UNION { { [kind |-> "tc", m |-> x.m, obj |-> [round |-> round, entries |-> [GoodEntries(S, round, HQR0) EXCEPT ![p].sig = x.sig]]]
               : x \in SigMuts(SortedSeq(S)[p], "timeout", <<round, 0>>) }
          : S \in {T \in SignerSets : Sum(T) >= Quorum}, p \in {1, 2} } \cup
  UNION { { [kind |-> "tc", m |-> "repeat_first", obj |-> [round |-> round, entries |-> Append(GoodEntries(S, round, HQR0), GoodEntries(S, round, HQR0)[1])]],
            [kind |-> "tc", m |-> "hqr_altered", obj |-> [round |-> round, entries |-> [GoodEntries(S, round, HQR0) EXCEPT ![1].hqr = 1]]],
            [kind |-> "tc", m |-> "round_altered", obj |-> [round |-> round + 1, entries |-> GoodEntries(S, round, HQR0)]],
            [kind |-> "tc", m |-> "plus_outsider", obj |-> [round |-> round, entries |->
                 Append(GoodEntries(S, round, HQR0), [signer |-> NMembers, hqr |-> 0, sig |-> Sig(NMembers, "timeout", <<round, 0>>)])]] }
          : S \in SignerSets }

QuorumSet == CHOOSE S \in SignerSets : Sum(S) >= Quorum /\ \A T \in SignerSets : Sum(T) >= Quorum => Cardinality(S) <= Cardinality(T)
SmallSet  == CHOOSE S \in SignerSets : Sum(S) < Quorum
GoodQC(blk, round) == [blk |-> blk, round |-> round, votes |-> GoodVotes(QuorumSet, blk, round)]
BadQCs(blk, round) == { [blk |-> blk, round |-> round, votes |-> GoodVotes(SmallSet, blk, round)],
                        [blk |-> blk, round |-> round + 1, votes |-> GoodVotes(QuorumSet, blk, round)],
                        [blk |-> blk, round |-> round, votes |-> [GoodVotes(QuorumSet, blk, round) EXCEPT ![1].sig = Flip(@)]],
                        [blk |-> blk, round |-> round, votes |-> Append(GoodVotes(QuorumSet, blk, round), GoodVotes(QuorumSet, blk, round)[1])],
                        \* look-alikes of QC::genesis() (which is exempt from verification): only hash = 0 AND round = 0 is genesis
                        [blk |-> blk, round |-> 0, votes |-> <<>>],
                        [blk |-> 0, round |-> round, votes |-> <<>>] }
GoodTC(round) == [round |-> round, entries |-> GoodEntries(QuorumSet, round, HQR0)]
BadTCs(round) == { [round |-> round, entries |-> GoodEntries(SmallSet, round, HQR0)],
                   [round |-> round, entries |-> [GoodEntries(QuorumSet, round, HQR0) EXCEPT ![1].sig = Flip(@)]] }

TimeoutCases(round) ==
  UNION { { [kind |-> "timeout", m |-> x.m, obj |-> [round |-> round, author |-> k, hq |-> hq, sig |-> x.sig]]
              : x \in SigMuts(k, "timeout", <<round, hq.round>>) }
          : k \in Keys, hq \in {GenesisQC, GoodQC(5, round - 1)} } \cup
  { [kind |-> "timeout", m |-> "bad_high_qc", obj |-> [round |-> round, author |-> 0, hq |-> hq, sig |-> Sig(0, "timeout", <<round, hq.round>>)]]
       : hq \in BadQCs(5, round - 1) } \cup
  { [kind |-> "timeout", m |-> "author_swapped", obj |-> [round |-> round, author |-> Other(k), hq |-> GenesisQC, sig |-> Sig(k, "timeout", <<round, 0>>)]] : k \in Members } \cup
  { [kind |-> "timeout", m |-> "high_qc_round_altered", obj |-> [round |-> round, author |-> 0, hq |-> [GoodQC(5, round - 1) EXCEPT !.round = round - 2],
                                                                  sig |-> Sig(0, "timeout", <<round, round - 1>>)]] }

BlockCases(round) ==
  LET par == GoodQC(5, round - 1) IN
  UNION { { [kind |-> "block", m |-> x.m, obj |-> [author |-> k, round |-> round, payload |-> 1, parent |-> par, tc |-> NoTC, sig |-> x.sig]]
              : x \in SigMuts(k, "block", <<k, round, 1, par.blk>>) }
          : k \in Keys } \cup
  { [kind |-> "block", m |-> "field_altered_" \o f, obj |-> o]
       : f \in {"author", "round", "payload", "parent"},
         o \in { [author |-> 0, round |-> round, payload |-> 1, parent |-> par, tc |-> NoTC, sig |-> Sig(0, "block", <<0, round, 1, par.blk>>)] } } \cup
  { [kind |-> "block", m |-> "bad_embedded_qc", obj |-> [author |-> 0, round |-> round, payload |-> 1, parent |-> q, tc |-> NoTC,
                                                           sig |-> Sig(0, "block", <<0, round, 1, q.blk>>)]] : q \in BadQCs(5, round - 1) } \cup
  { [kind |-> "block", m |-> "embedded_tc", obj |-> [author |-> 0, round |-> round, payload |-> 1, parent |-> par, tc |-> t,
                                                       sig |-> Sig(0, "block", <<0, round, 1, par.blk>>)]] : t \in {GoodTC(round - 1)} \cup BadTCs(round - 1) } \cup
  { [kind |-> "block", m |-> "genesis_parent", obj |-> [author |-> 0, round |-> 1, payload |-> 0, parent |-> GenesisQC, tc |-> NoTC,
                                                          sig |-> Sig(0, "block", <<0, 1, 0, 0>>)]] }

\* "field_altered_X": the harness alters field X of the concrete block AFTER signing; the abstract verdict is computed on
\* the object whose signature content no longer matches that field
AlterBlock(c) ==
  IF c.kind = "block" /\ c.m = "field_altered_author"  THEN [c EXCEPT !.obj.author = Other(@)]
  ELSE IF c.kind = "block" /\ c.m = "field_altered_round"   THEN [c EXCEPT !.obj.round = @ + 1]
  ELSE IF c.kind = "block" /\ c.m = "field_altered_payload" THEN [c EXCEPT !.obj.payload = @ + 1]
  ELSE IF c.kind = "block" /\ c.m = "field_altered_parent"  THEN [c EXCEPT !.obj.parent = GoodQC(6, c.obj.round - 1)]
  ELSE c

Verdict(c) ==
  CASE c.kind = "vote"    -> VoteValid(c.obj)
    [] c.kind = "qc"      -> QCValid(c.obj)
    [] c.kind = "tc"      -> TCValid(c.obj)
    [] c.kind = "timeout" -> TimeoutValid(c.obj)
    [] c.kind = "block"   -> BlockValid(c.obj)

Cases == {AlterBlock(c) : c \in QCCases(5, 3) \cup VoteCases(5, 3) \cup TCCases(3) \cup TimeoutCases(4) \cup BlockCases(4)}

\* sanity of the matrix itself (checked by TLC): both verdicts occur for every kind, and every rejected case differs
\* from an accepted one -- i.e. the matrix is not vacuous
MatrixNotVacuous == \A k \in {"vote", "qc", "tc", "timeout", "block"} :
   (\E c \in Cases : c.kind = k /\ Verdict(c)) /\ (\E c \in Cases : c.kind = k /\ ~Verdict(c))
\* C04, model level: dropping below the quorum, repeating a signer, a non-member or zero-stake signer always rejects
BelowQuorumRejected == \A c \in Cases : c.kind = "qc" => (Sum(SeqSet(Signers(c.obj.votes)) \cap Members) < Quorum => ~Verdict(c))
RepeatRejected == \A c \in Cases : c.m = "repeat_first" => ~Verdict(c)
OutsiderRejected == \A c \in Cases : c.m \in {"plus_outsider", "outsider_key"} => ~Verdict(c)
AnyAlterationRejected == \A c \in Cases : c.m \in {"other_key", "other_a", "other_b", "other_kind", "bitflip", "round_altered", "block_altered",
      "hqr_altered", "author_swapped", "bad_high_qc", "bad_embedded_qc", "field_altered_author", "field_altered_round",
      "field_altered_payload", "field_altered_parent"} => ~Verdict(c)
=============================================================================
