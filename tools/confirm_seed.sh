#!/bin/bash
# usage: tools/confirm_seed.sh <seed-id> <test name filter>
# in the scratch worktree /tmp/seed/<id> (change + demo applied): demo must FAIL with the change and PASS without it
sid=$1; filt=$2
cd /tmp/seed/$sid || exit 2
export CARGO_TARGET_DIR=/tmp/seed/$sid/target
w=$(timeout 1500 cargo test --workspace --offline -j 8 "$filt" 2>&1 | grep -E "^test .*$filt|test result: F" | head -3 | tr '\n' ';')
git apply -R _out/patch.diff || { echo "cannot revert patch"; exit 2; }
wo=$(timeout 1500 cargo test --workspace --offline -j 8 "$filt" 2>&1 | grep -E "^test .*$filt|test result: F" | head -3 | tr '\n' ';')
git apply _out/patch.diff
echo "WITH change: $w"
echo "WITHOUT change: $wo"
mkdir -p /verif/seeded/$sid && cp _out/patch.diff _out/demo.diff _out/meta.json /verif/seeded/$sid/
echo "$(date -u +%FT%TZ) confirmed in /tmp/seed/$sid: demo '$filt' with change: $w | without change: $wo" >> /verif/seeded/$sid/result.txt
