#!/usr/bin/env python3
"""Regenerates /verif/MANIFEST.json from the table below (one place to keep it consistent)."""
import json, os
V = os.path.dirname(os.path.dirname(os.path.abspath(__file__)))
props = [json.loads(l) for l in open(os.path.join(V, "properties.jsonl"))]

CORE_NOTE = ("TLC/SANY; ideal signatures in the model; the rig (in-memory transport, per-node virtual clocks) and the guarded hooks; bounded rounds: "
             "exhaustive open-system model at rounds<=3, generated behaviours up to 12-16 rounds, multi-node runs up to 30-40 rounds")
CORE_TECH = ("TLA+ open-system model checked by TLC; TLC-generated behaviours replayed into the real node; recorded traces validated by TLC against the "
             "spec's handler operators with the property formulas as monitors")
SEQ_TECH = "TLA+ module of the component checked by TLC; TLC-generated call sequences executed on the real object; recorded results validated by TLC against the module"

CHECKS = {
 "C02": ("model_checking", "TLC checks DeliveredIsChain exhaustively on the open-system model (one honest node vs. environment, EnvSafe assumption) and evaluates the same formula on the commit-channel output of the real code: TLC-generated behaviours replayed into a real node plus randomised multi-node runs with crashes/view changes, every recorded handler run compared with the model.", CORE_NOTE, CORE_TECH),
 "C03": ("model_checking", "TLC checks the voting-safety invariants exhaustively on the open-system model and evaluates them on every vote/timeout the real node signs under TLC-generated stimuli (equivocation, gaps, TCs with every max high-QC round, weird QC rounds, timer expiries, sync/loopback paths) and in multi-node runs.", CORE_NOTE, CORE_TECH),
 "C05": ("model_checking", "TLC checks CommitNeedsTwoChain on the open-system model and on recorded executions: every batch of commits of the real node must be triggered by processing a block whose parent and grandparent are in consecutive rounds, delivering the grandparent and only its ancestors.", CORE_NOTE, CORE_TECH),
 "C09": ("model_checking", "Leader election: TLC checks rotation/uniqueness in Committee.tla and validates the real LeaderElector (all insertion orders, rounds up to u64 extremes as windows) against it; voting/proposing: TLC checks VoteOnlyLeaderBlocks and HonestNoEquivocation on the open-system model and on recorded executions of the real node.", CORE_NOTE, CORE_TECH),
 "C10": ("model_checking", "TLC checks RoundMonotone / RoundNeedsCertificate / TimeoutCarriesHighQC on the open-system model and on recorded executions of the real node (round changes from hook events, certificates shown or assembled, high-QC carried by signed timeouts).", CORE_NOTE, CORE_TECH),
 "C16": ("model_checking", "Store.tla (FIFO command channel, single applier, obligations) checked exhaustively by TLC (safety invariants, liveness under fairness, non-vacuity via a lost-wake-up attack model); TLC-generated command sequences from several handles executed on the real RocksDB-backed Store with controlled enqueue order; every response and a reopen read-back validated by TLC against the module.", "TLC; enqueue order = first-poll order on one runtime thread; bounded command sequences", SEQ_TECH),
 "C17": ("model_checking", "Arithmetic for every total stake proved by tlapm (q>2n/3, q<=n-f, 2q-n>f, q=n-f); set-level quorum intersection checked by TLC over every stake distribution of small committees; both crates' real Committee types evaluated on exhaustive small, boundary (around every 2^k up to 2^31-1) and random stake vectors, validated by TLC against Committee.tla.", "TLC, tlapm+Z3; totals < 2^31", "TLAPS proof of the arithmetic + TLC enumeration of Committee.tla + TLC validation of values computed by the real Committee types"),
 "C19": ("model_checking", "Aggregator.tla (makers keyed by round and vote digest, weight reset) checked exhaustively by TLC with C19 as a step property; TLC-generated call sequences (duplicates, conflicting votes, several blocks per round, stale rounds, unequal stakes) executed on the real Aggregator with real signatures; presence, content and validity (real QC/TC::verify under an independent committee) of every certificate validated by TLC against the module.", "TLC; inputs to the aggregator are verified votes/timeouts of committee members; bounded sequences", SEQ_TECH),
}
NOT_YET = "check not built yet in this session (build in progress, see DESIGN.md section 8 build order)"

def chk(pid, cat, text, note, tech):
    return {"property_id": pid, "quick_cmd": "./check %s --tier quick" % pid, "thorough_cmd": "./check %s --tier thorough" % pid,
            "evidence_file": "evidence/%s.json" % pid, "replay_cmd_template": "./check %s --replay {path}" % pid, "engine": "tlc+rig",
            "level_claimed": {"category": cat, "text": text, "design_ref": "DESIGN.md section 6, " + pid}, "level_note": note, "technique": tech}

m = {"version": 1, "setup_cmd": "./setup.sh",
     "hooks": {"guard": "hotstuff_verif",
               "enable": "RUSTFLAGS=--cfg hotstuff_verif (set in /verif/harness/.cargo/config.toml; the harness crate has path dependencies on /repo's crates)",
               "baseline_off_cmd": "cd /repo && cargo test --workspace --no-fail-fast --offline",
               "source_commits": ["c7358b6", "5567e7e", "4d8857c"], "add_only": True},
     "engines": [{"name": "tlc+rig", "path": "check", "serves_properties": sorted(CHECKS),
                  "kind_free_text": "Python driver: TLC model runs on spec/*.tla, Rust harness (harness/) driving the real crates under cfg(hotstuff_verif), TLC trace validation (spec/Trace*.tla)"}],
     "checks": [chk(p, *CHECKS[p]) for p in sorted(CHECKS)],
     "notes": "Model-based verification with TLA+/TLC; see DESIGN.md. Genuine defects found and fixed are listed in known_findings.json.",
     "not_applicable": [{"property_id": p["id"], "reason": NOT_YET} for p in props if p["id"] not in CHECKS]}
json.dump(m, open(os.path.join(V, "MANIFEST.json"), "w"), indent=1)
print("checks:", len(m["checks"]), "not_applicable:", len(m["not_applicable"]))
