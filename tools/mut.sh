#!/bin/bash
# usage: tools_mut.sh <prop> <file> <python-regex-old> <new>   -- apply a one-line mutation to /repo, run the check, revert
prop=$1; file=$2; old=$3; new=$4
cd /repo && python3 - "$file" "$old" "$new" <<'PY'
import sys,re
f,old,new=sys.argv[1:4]
s=open(f).read()
n=len(re.findall(old,s))
assert n==1,(n,old)
open(f,'w').write(re.sub(old,new,s))
PY
[ $? -eq 0 ] || { echo "mutation did not apply"; exit 3; }
git -C /repo diff --stat | tail -1
cd /verif && ./check $prop --tier ${TIER:-quick} 2>&1 | grep -E "VIOLATION|what:|ok:|FAILED|TOOL-ERROR|DIVERGENCE" | head -8
echo "exit=${PIPESTATUS[0]}"
git -C /repo checkout -- .
