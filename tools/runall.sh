#!/bin/bash
# run every registered check (quick by default) and summarise; usage: tools/runall.sh [quick|thorough] [ids...]
cd "$(dirname "$0")/.."
mkdir -p work
tier=${1:-quick}; shift
ids=${@:-C01 C02 C03 C04 C05 C06 C07 C08 C09 C10 C11 C12 C13 C14 C15 C16 C17 C18 C19 C20}
for p in $ids; do
  s=$(date +%s)
  ./check $p --tier $tier > work/run-$p.log 2>&1
  rc=$?
  e=$(date +%s)
  echo "$p exit=$rc $((e-s))s $(grep -E 'ok:|FAILED|TOOL-ERROR' work/run-$p.log | tail -1 | cut -c1-160)"
done
