#!/bin/bash
# usage: tools/seeded.sh <seed-id> <check-id> [more check ids...]
# applies /verif/seeded/<seed-id>/patch.diff to /repo, runs the named checks (quick), reverts, records the outcome
sid=$1; shift
cd /verif
[ -f seeded/$sid/patch.diff ] || { echo "no seeded/$sid/patch.diff"; exit 2; }
git -C /repo diff --quiet || { echo "/repo is not clean"; exit 2; }
# hook commits made after a seed was written may have moved the surrounding lines: fall back to reduced context
git -C /repo apply /verif/seeded/$sid/patch.diff 2>/dev/null || git -C /repo apply -C1 /verif/seeded/$sid/patch.diff || { echo "patch does not apply"; exit 2; }
for p in "$@"; do
  ./check $p --tier ${TIER:-quick} > work/seeded-$sid-$p.log 2>&1
  rc=$?
  mon=$(grep -E "what:" work/seeded-$sid-$p.log | sed 's/^ *what: //' | cut -c1-160 | sort | uniq -c | sort -rn | head -3 | tr '\n' ';')
  echo "$(date -u +%FT%TZ) seed=$sid check=$p tier=${TIER:-quick} exit=$rc $mon" | tee -a seeded/$sid/result.txt
done
git -C /repo checkout -- .
find /verif/replays -name '*.json' -newer seeded/$sid/patch.diff -delete 2>/dev/null
