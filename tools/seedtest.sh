#!/bin/bash
# usage: tools/seedtest.sh <seed-id> <worktree with the change applied> <check-id> [more check ids...]
# Runs checks against a scratch worktree instead of /repo, from a private copy of /verif (so /repo and /verif's own runs are not disturbed).
# Only for evaluating seeded changes; registered checks always build from /repo.
sid=$1; wt=$2; shift 2
v2=/tmp/verif2-$sid
mkdir -p $v2
rsync -a --delete --exclude work --exclude replays --exclude .git --exclude evidence /verif/ $v2/
mkdir -p $v2/work $v2/evidence
sed -i "s#/repo/#$wt/#" $v2/harness/Cargo.toml $v2/harness/src/cryptod.rs
sed -i "s#^REPO = \"/repo\"#REPO = \"$wt\"#" $v2/checks/common.py
cd $v2
for p in "$@"; do
  ./check $p --tier ${TIER:-quick} > work/seeded-$sid-$p.log 2>&1
  rc=$?
  mon=$(grep -E "what:" work/seeded-$sid-$p.log | sed 's/^ *what: //' | cut -c1-160 | sort | uniq -c | sort -rn | head -3 | tr '\n' ';')
  mkdir -p /verif/seeded/$sid
  echo "$(date -u +%FT%TZ) seed=$sid check=$p tier=${TIER:-quick} (run against the scratch worktree $wt from a copy of /verif) exit=$rc $mon" | tee -a /verif/seeded/$sid/result.txt
  cp work/seeded-$sid-$p.log /verif/work/ 2>/dev/null
done
